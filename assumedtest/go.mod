module assumedtest

go 1.22.0

toolchain go1.23.5

require (
	github.com/bits-and-blooms/bitset v1.22.0
	github.com/coredhcp/coredhcp v0.0.0
	github.com/insomniacslk/dhcp v0.0.0-20241203100832-a481575ed0ef
)

require (
	github.com/pierrec/lz4/v4 v4.1.22 // indirect
	github.com/u-root/uio v0.0.0-20240224005618-d2acac8f3701 // indirect
	golang.org/x/sys v0.29.0 // indirect
)

replace github.com/coredhcp/coredhcp => /repo
