package assumedtest

// Validation of the assumed contracts of github.com/insomniacslk/dhcp (dhcpv4.spec, dhcpv6.spec).

import (
	"bytes"
	"net"
	"testing"

	"github.com/insomniacslk/dhcp/dhcpv4"
	"github.com/insomniacslk/dhcp/dhcpv6"
	"github.com/insomniacslk/dhcp/iana"
)

func TestDHCPv4ReplySkeletonAndOptions(t *testing.T) {
	r := rnd()
	for i := 0; i < 3000; i++ {
		hw := make(net.HardwareAddr, 6)
		r.Read(hw)
		req, err := dhcpv4.NewDiscovery(hw)
		if err != nil {
			t.Fatal(err)
		}
		req.OpCode = dhcpv4.OpcodeType(r.Intn(4))
		req.Flags = uint16(r.Intn(1 << 16))
		req.GatewayIPAddr = net.IPv4(byte(r.Intn(256)), 0, 0, byte(r.Intn(256)))
		if r.Intn(2) == 0 {
			req.UpdateOption(dhcpv4.OptGeneric(dhcpv4.OptionRelayAgentInformation, []byte{1, 2, 3}))
		}
		if r.Intn(2) == 0 {
			req.UpdateOption(dhcpv4.OptClientIdentifier([]byte{9, 9}))
		}
		if r.Intn(2) == 0 {
			delete(req.Options, uint8(dhcpv4.OptionParameterRequestList))
		}
		resp, err := dhcpv4.NewReplyFromRequest(req)
		if err != nil {
			continue
		}
		wantOp := dhcpv4.OpcodeBootRequest
		if req.OpCode == dhcpv4.OpcodeBootRequest {
			wantOp = dhcpv4.OpcodeBootReply
		}
		if resp.OpCode != wantOp || resp.HWType != req.HWType || resp.TransactionID != req.TransactionID ||
			!bytes.Equal(resp.ClientHWAddr, req.ClientHWAddr) || resp.Flags != req.Flags || !resp.GatewayIPAddr.Equal(req.GatewayIPAddr) {
			t.Fatalf("reply skeleton does not mirror the request: %v / %v", req.Summary(), resp.Summary())
		}
		if !resp.YourIPAddr.Equal(net.IPv4zero) || !resp.ClientIPAddr.Equal(net.IPv4zero) || !resp.ServerIPAddr.Equal(net.IPv4zero) {
			t.Fatalf("reply skeleton has addresses set")
		}
		for code := 0; code < 256; code++ {
			_, has := resp.Options[uint8(code)]
			_, reqHas := req.Options[uint8(code)]
			want := (code == 82 || code == 61) && reqHas
			if has != want {
				t.Fatalf("reply skeleton option %d present=%v, contract says %v", code, has, want)
			}
			if has && !bytes.Equal(resp.Options[uint8(code)], req.Options[uint8(code)]) {
				t.Fatalf("reply skeleton option %d not echoed", code)
			}
		}
		// IsOptionRequested: no parameter request list => true for every code
		_, hasPRL := req.Options[uint8(dhcpv4.OptionParameterRequestList)]
		if !hasPRL && !req.IsOptionRequested(dhcpv4.OptionInterfaceMTU) {
			t.Fatal("IsOptionRequested is false without a parameter request list")
		}
		if hasPRL {
			listed := false
			for _, c := range req.ParameterRequestList() {
				if c.Code() == dhcpv4.OptionInterfaceMTU.Code() {
					listed = true
				}
			}
			if req.IsOptionRequested(dhcpv4.OptionInterfaceMTU) != listed {
				t.Fatal("IsOptionRequested disagrees with the parameter request list")
			}
		}
		if req.IsBroadcast() != (req.Flags&0x8000 == 0x8000) {
			t.Fatal("IsBroadcast")
		}
		// Options.Update replaces exactly one code with the option's encoding
		before := map[uint8][]byte{}
		for k, v := range resp.Options {
			before[k] = v
		}
		opt := dhcpv4.OptServerIdentifier(net.IPv4(10, 0, 0, 1))
		resp.Options.Update(opt)
		if !bytes.Equal(resp.Options[opt.Code.Code()], opt.Value.ToBytes()) {
			t.Fatal("Update does not store the option's encoding")
		}
		for k, v := range before {
			if k != opt.Code.Code() && !bytes.Equal(resp.Options[k], v) {
				t.Fatalf("Update touched option %d", k)
			}
		}
		if len(resp.Options) != len(before)+1 && len(resp.Options) != len(before) {
			t.Fatal("Update added more than one option")
		}
		if resp.MessageType() != dhcpv4.MessageTypeNone && !resp.Options.Has(dhcpv4.OptionDHCPMessageType) {
			t.Fatal("MessageType without option 53")
		}
	}
}

func TestDHCPv6ReplySkeletons(t *testing.T) {
	duid := &dhcpv6.DUIDLL{HWType: iana.HWTypeEthernet, LinkLayerAddr: net.HardwareAddr{2, 0, 0, 0, 0, 1}}
	replyable := map[dhcpv6.MessageType]bool{dhcpv6.MessageTypeRequest: true, dhcpv6.MessageTypeConfirm: true, dhcpv6.MessageTypeRenew: true,
		dhcpv6.MessageTypeRebind: true, dhcpv6.MessageTypeRelease: true, dhcpv6.MessageTypeInformationRequest: true}
	for mt := 0; mt < 40; mt++ {
		for _, withCID := range []bool{false, true} {
			for _, withRC := range []bool{false, true} {
				m, _ := dhcpv6.NewMessage()
				m.MessageType = dhcpv6.MessageType(mt)
				if withCID {
					m.AddOption(dhcpv6.OptClientID(duid))
				}
				if withRC {
					m.AddOption(&dhcpv6.OptionGeneric{OptionCode: dhcpv6.OptionRapidCommit})
				}
				rep, err := dhcpv6.NewReplyFromMessage(m)
				want := withCID && (replyable[m.MessageType] || (m.MessageType == dhcpv6.MessageTypeSolicit && withRC))
				if (err == nil) != want {
					t.Fatalf("NewReplyFromMessage(type %d, cid %v, rc %v): err=%v, contract says ok=%v", mt, withCID, withRC, err, want)
				}
				if err == nil {
					rm := rep
					if rm.MessageType != dhcpv6.MessageTypeReply || rm.TransactionID != m.TransactionID || len(rm.Options.Get(dhcpv6.OptionClientID)) != 1 {
						t.Fatalf("reply skeleton wrong: %v", rm.Summary())
					}
					nRC := len(rm.Options.Get(dhcpv6.OptionRapidCommit))
					if (m.MessageType == dhcpv6.MessageTypeSolicit) != (nRC == 1) || len(rm.Options.Options) != 1+nRC {
						t.Fatalf("reply skeleton options: %v", rm.Summary())
					}
				}
				adv, err := dhcpv6.NewAdvertiseFromSolicit(m)
				wantA := withCID && m.MessageType == dhcpv6.MessageTypeSolicit
				if (err == nil) != wantA {
					t.Fatalf("NewAdvertiseFromSolicit(type %d, cid %v): err=%v, contract says ok=%v", mt, withCID, err, wantA)
				}
				if err == nil {
					am := adv
					if am.MessageType != dhcpv6.MessageTypeAdvertise || am.TransactionID != m.TransactionID || len(am.Options.Options) != 1 || len(am.Options.Get(dhcpv6.OptionClientID)) != 1 {
						t.Fatalf("advertise skeleton wrong: %v", am.Summary())
					}
				}
			}
		}
	}
	// AddOption appends one occurrence; UpdateOption replaces the first occurrence or appends
	m, _ := dhcpv6.NewMessage()
	for k := 0; k < 3; k++ {
		m.AddOption(dhcpv6.OptDNS(net.ParseIP("2001:db8::1")))
		if len(m.Options.Get(dhcpv6.OptionDNSRecursiveNameServer)) != k+1 {
			t.Fatal("AddOption does not add exactly one occurrence")
		}
	}
	m2, _ := dhcpv6.NewMessage()
	m2.UpdateOption(dhcpv6.OptDNS(net.ParseIP("2001:db8::1")))
	m2.UpdateOption(dhcpv6.OptDNS(net.ParseIP("2001:db8::2")))
	if got := m2.Options.Get(dhcpv6.OptionDNSRecursiveNameServer); len(got) != 1 {
		t.Fatalf("UpdateOption on a single occurrence left %d", len(got))
	}
	// DUID wire form identifies the client: differing hardware types give differing bytes
	a := (&dhcpv6.DUIDLL{HWType: iana.HWTypeEthernet, LinkLayerAddr: net.HardwareAddr{2, 0, 0, 0, 0, 1}}).ToBytes()
	b := (&dhcpv6.DUIDLL{HWType: iana.HWType(6), LinkLayerAddr: net.HardwareAddr{2, 0, 0, 0, 0, 1}}).ToBytes()
	if bytes.Equal(a, b) {
		t.Fatal("DUID.ToBytes does not distinguish hardware types")
	}
}
