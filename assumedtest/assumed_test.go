// Validation of the ASSUMED contracts (/verif/contracts/assumed/*.spec) against the real
// libraries: every clause below is restated as an executable check and run on edge cases plus
// seeded random inputs. This is testing, not proof: it cannot establish an assumed contract, but a
// wrong clause (two were found by seeded changes before this harness existed) fails here.
// Run: tools/check_assumed.sh
package assumedtest

import (
	"bytes"
	"encoding/binary"
	"math/big"
	"math/rand"
	"net"
	"strconv"
	"strings"
	"testing"
	"time"

	"github.com/bits-and-blooms/bitset"
)

const rounds = 20000

func rnd() *rand.Rand { return rand.New(rand.NewSource(20261003)) }

func u128(b []byte) *big.Int { return new(big.Int).SetBytes(b[:16]) }

func isv4mapped(ip net.IP) bool {
	return len(ip) == 16 && binary.BigEndian.Uint64(ip) == 0 && binary.BigEndian.Uint16(ip[8:]) == 0 && binary.BigEndian.Uint16(ip[10:]) == 0xffff
}
func isv4(ip net.IP) bool { return len(ip) == 4 || isv4mapped(ip) }
func v4of(ip net.IP) uint32 {
	if len(ip) == 4 {
		return binary.BigEndian.Uint32(ip)
	}
	return binary.BigEndian.Uint32(ip[12:])
}
func randIP(r *rand.Rand) net.IP {
	switch r.Intn(6) {
	case 0:
		return nil
	case 1:
		b := make(net.IP, 4)
		r.Read(b)
		return b
	case 2:
		b := make(net.IP, 16)
		r.Read(b[12:])
		b[10], b[11] = 0xff, 0xff
		return b
	case 3:
		b := make(net.IP, r.Intn(20))
		r.Read(b)
		return b
	default:
		b := make(net.IP, 16)
		r.Read(b)
		if r.Intn(4) == 0 {
			for i := 0; i < r.Intn(16); i++ {
				b[i] = 0
			}
		}
		return b
	}
}
func sameSlice(a, b []byte) bool {
	return len(a) == len(b) && (len(a) == 0 || &a[0] == &b[0])
}

// ---- net.spec ----------------------------------------------------------------------------

func TestNetIPTo4To16(t *testing.T) {
	r := rnd()
	for i := 0; i < rounds; i++ {
		ip := randIP(r)
		got := ip.To4()
		switch {
		case len(ip) == 4:
			if !sameSlice(got, ip) {
				t.Fatalf("To4(%v): not the receiver itself", ip)
			}
		case isv4mapped(ip):
			if !sameSlice(got, ip[12:16]) {
				t.Fatalf("To4(%v): not ip[12:16]", ip)
			}
		}
		if !isv4(ip) && got != nil {
			t.Fatalf("To4(%v) = %v, want nil", []byte(ip), got)
		}
		g16 := ip.To16()
		switch len(ip) {
		case 16:
			if !sameSlice(g16, ip) {
				t.Fatalf("To16(%v): not the receiver", ip)
			}
		case 4:
			if len(g16) != 16 || !isv4mapped(g16) || binary.BigEndian.Uint32(g16[12:]) != binary.BigEndian.Uint32(ip) {
				t.Fatalf("To16(%v) = %v", ip, g16)
			}
		default:
			if g16 != nil {
				t.Fatalf("To16 of a %d-byte address = %v, want nil", len(ip), g16)
			}
		}
	}
}

func canon(x *big.Int, bits int) bool {
	// ((^x) & ((^x)+1)) == 0 in `bits`-bit arithmetic
	mod := new(big.Int).Lsh(big.NewInt(1), uint(bits))
	nx := new(big.Int).Sub(new(big.Int).Sub(mod, big.NewInt(1)), x)
	nx1 := new(big.Int).Mod(new(big.Int).Add(nx, big.NewInt(1)), mod)
	return new(big.Int).And(nx, nx1).Sign() == 0
}
func cidr(n, bits int) *big.Int {
	all := new(big.Int).Sub(new(big.Int).Lsh(big.NewInt(1), uint(bits)), big.NewInt(1))
	return new(big.Int).Xor(all, new(big.Int).Rsh(all, uint(n)))
}

func TestIPMaskSizeAndCIDRMask(t *testing.T) {
	r := rnd()
	for i := 0; i < rounds; i++ {
		var m net.IPMask
		switch r.Intn(5) {
		case 0:
			m = net.CIDRMask(r.Intn(129), 128)
		case 1:
			m = net.CIDRMask(r.Intn(33), 32)
		case 2:
			m = make(net.IPMask, 16)
			r.Read(m)
		case 3:
			m = make(net.IPMask, 4)
			r.Read(m)
		default:
			m = make(net.IPMask, r.Intn(20))
			r.Read(m)
		}
		ones, bits := m.Size()
		if !(0 <= ones && ones <= bits && (bits == 8*len(m) || (bits == 0 && ones == 0))) {
			t.Fatalf("Size(%v) = %d,%d violates the general clause", []byte(m), ones, bits)
		}
		for _, w := range []int{16, 4} {
			if len(m) != w {
				continue
			}
			x := new(big.Int).SetBytes(m)
			if canon(x, 8*w) {
				if bits != 8*w || x.Cmp(cidr(ones, 8*w)) != 0 {
					t.Fatalf("Size(%v) = %d,%d for a canonical mask", []byte(m), ones, bits)
				}
			} else if ones != 0 || bits != 0 {
				t.Fatalf("Size(%v) = %d,%d for a non-canonical mask", []byte(m), ones, bits)
			}
		}
	}
	for bits := -1; bits <= 130; bits++ {
		for ones := -1; ones <= 130; ones++ {
			m := net.CIDRMask(ones, bits)
			ok := (bits == 32 || bits == 128) && ones >= 0 && ones <= bits
			if !ok {
				if m != nil {
					t.Fatalf("CIDRMask(%d,%d) = %v, want nil", ones, bits, m)
				}
				continue
			}
			if len(m) != bits/8 || new(big.Int).SetBytes(m).Cmp(cidr(ones, bits)) != 0 {
				t.Fatalf("CIDRMask(%d,%d) = %v", ones, bits, m)
			}
		}
	}
}

func TestIPNetContainsMaskEqual(t *testing.T) {
	r := rnd()
	for i := 0; i < rounds; i++ {
		nip, mask, ip := make(net.IP, 16), make(net.IPMask, 16), randIP(r)
		r.Read(nip)
		if r.Intn(2) == 0 {
			mask = net.CIDRMask(r.Intn(129), 128)
		} else {
			r.Read(mask)
		}
		if r.Intn(3) == 0 && len(ip) == 16 { // make hits likely
			for k := range ip {
				ip[k] = ip[k]&^mask[k] | nip[k]&mask[k]
			}
		}
		if !isv4mapped(nip) {
			n := &net.IPNet{IP: nip, Mask: mask}
			want := len(ip) == 16 && !isv4mapped(ip) &&
				new(big.Int).And(u128(ip), u128(mask)).Cmp(new(big.Int).And(u128(nip), u128(mask))) == 0
			if got := n.Contains(ip); got != want {
				t.Fatalf("(%v/%v).Contains(%v) = %v, contract says %v", nip, mask, ip, got, want)
			}
		}
		masked := nip.Mask(mask)
		if len(masked) != 16 || u128(masked).Cmp(new(big.Int).And(u128(nip), u128(mask))) != 0 {
			t.Fatalf("(%v).Mask(%v) = %v", nip, mask, masked)
		}
		a, b := randIP(r), randIP(r)
		if r.Intn(3) == 0 {
			b = append(net.IP(nil), a...)
		}
		if len(a) == 16 && len(b) == 16 && a.Equal(b) != (u128(a).Cmp(u128(b)) == 0) {
			t.Fatalf("Equal(%v,%v)", a, b)
		}
		if len(a) == 4 && len(b) == 4 && a.Equal(b) != bytes.Equal(a, b) {
			t.Fatalf("Equal(%v,%v)", a, b)
		}
	}
}

func TestParseCIDRParseIPString(t *testing.T) {
	r := rnd()
	for i := 0; i < rounds; i++ {
		ip := randIP(r)
		if len(ip) != 4 && len(ip) != 16 {
			continue
		}
		// IP.String of IPv4 forms: dotted quad, the same for both byte forms, injective
		if isv4(ip) {
			s := ip.String()
			back := net.ParseIP(s)
			if back == nil || !isv4(back) || v4of(back) != v4of(ip) {
				t.Fatalf("String/ParseIP round trip of %v: %q -> %v", []byte(ip), s, back)
			}
			other := make(net.IP, 4)
			binary.BigEndian.PutUint32(other, v4of(ip))
			if other.String() != s {
				t.Fatalf("4-byte and mapped form of %v print differently", ip)
			}
		}
		txt := ip.String()
		p := net.ParseIP(txt)
		if p == nil || len(p) != 16 {
			t.Fatalf("ParseIP(%q) = %v", txt, p)
		}
		if (p.To4() != nil) != isv4(p) {
			t.Fatalf("ParseIP(%q): To4/isv4 disagree", txt)
		}
		bits := 8 * len(ip)
		ones := r.Intn(bits + 1)
		c := txt + "/" + strconv.Itoa(ones)
		if isv4mapped(ip) && len(ip) == 16 && r.Intn(2) == 0 {
			c = "::ffff:" + net.IP(ip[12:]).String() + "/" + strconv.Itoa(96+r.Intn(33))
		}
		_, n, err := net.ParseCIDR(c)
		if err != nil {
			continue
		}
		if n == nil || (len(n.IP) != 4 && len(n.IP) != 16) || len(n.Mask) != len(n.IP) {
			t.Fatalf("ParseCIDR(%q) = %v", c, n)
		}
		if len(n.IP) == 16 {
			m := u128(n.Mask)
			if !canon(m, 128) {
				t.Fatalf("ParseCIDR(%q): mask %v not canonical", c, n.Mask)
			}
			o, _ := n.Mask.Size()
			low := new(big.Int).Sub(new(big.Int).Lsh(big.NewInt(1), uint(128-o)), big.NewInt(1))
			if new(big.Int).And(u128(n.IP), low).Sign() != 0 {
				t.Fatalf("ParseCIDR(%q): base %v not aligned to /%d", c, n.IP, o)
			}
		}
	}
	for _, s := range []string{"", "x", "1.2.3", "1.2.3.4.5", "::ffff:1.2.3.4", "::1", "1.2.3.4", "01.2.3.4", "fe80::1%eth0"} {
		p := net.ParseIP(s)
		if p != nil && len(p) != 16 {
			t.Fatalf("ParseIP(%q) has length %d", s, len(p))
		}
	}
}

func TestHardwareAddrStringParseMAC(t *testing.T) {
	r := rnd()
	for n := 0; n <= 24; n++ {
		for k := 0; k < 50; k++ {
			a := make(net.HardwareAddr, n)
			r.Read(a)
			s := a.String()
			back, err := net.ParseMAC(s)
			want := n == 6 || n == 8 || n == 20
			if (err == nil) != want {
				t.Fatalf("ParseMAC(%q) of a %d-byte address: err=%v, contract says accepted=%v", s, n, err, want)
			}
			if err == nil && (back == nil || !bytes.Equal(back, a)) {
				t.Fatalf("ParseMAC(%q) = %v", s, back)
			}
		}
	}
}

// ---- std.spec ----------------------------------------------------------------------------

func TestBytesCompareSplitAtoi(t *testing.T) {
	r := rnd()
	for i := 0; i < rounds; i++ {
		a, b := make([]byte, 16), make([]byte, 16)
		r.Read(a)
		r.Read(b)
		if r.Intn(3) == 0 {
			copy(b, a[:r.Intn(17)])
		}
		c := bytes.Compare(a, b)
		if (c < 0) != (u128(a).Cmp(u128(b)) < 0) || (c == 0) != (u128(a).Cmp(u128(b)) == 0) {
			t.Fatalf("Compare(%v,%v) = %d", a, b, c)
		}
		data := make([]byte, r.Intn(40))
		for k := range data {
			data[k] = "ab\n"[r.Intn(3)]
		}
		parts := bytes.Split(data, []byte{'\n'})
		if len(parts) < 1 || len(parts) != bytes.Count(data, []byte{'\n'})+1 {
			t.Fatalf("Split(%q) has %d pieces", data, len(parts))
		}
		if !bytes.Equal(bytes.Join(parts, []byte{'\n'}), data) {
			t.Fatalf("Split(%q) loses bytes", data)
		}
		again := bytes.Split(data, []byte{'\n'})
		if len(again) != len(parts) {
			t.Fatalf("Split is not a function of its arguments")
		}
		s := string(data)
		if f1, f2 := strings.Fields(s), strings.Fields(s); len(f1) != len(f2) || strings.Join(f1, " ") != strings.Join(f2, " ") {
			t.Fatalf("Fields is not a function of its argument")
		}
		if j := strings.LastIndexByte(s, 'a'); j < -1 || j >= len(s) {
			t.Fatalf("LastIndexByte out of range")
		}
	}
}

// ---- time.spec (pair form) -----------------------------------------------------------------

type pair struct{ sec, fr int64 }

func pairOf(t time.Time) pair { return pair{t.Unix(), int64(t.Nanosecond())} }
func less(a, b pair) bool    { return a.sec < b.sec || (a.sec == b.sec && a.fr < b.fr) }

func TestTimePairModel(t *testing.T) {
	r := rnd()
	const e9 = int64(1000000000)
	for i := 0; i < rounds; i++ {
		ts := time.Unix(r.Int63n(4000000000), r.Int63n(e9))
		if r.Intn(8) == 0 {
			ts = time.Unix(r.Int63n(4000000000), []int64{0, 1, 499999999, 500000000, 500000001, 999999999}[r.Intn(6)])
		}
		d := time.Duration(r.Int63n(3000000000000000000 + 1))
		if r.Intn(8) == 0 {
			d = []time.Duration{0, 1, time.Second - 1, time.Second, time.Hour, 3000000000000000000}[r.Intn(6)]
		}
		dsec, dfr := int64(d)/e9, int64(d)%e9
		p := pairOf(ts)
		// Add
		got := pairOf(ts.Add(d))
		carry := int64(0)
		if p.fr+dfr >= e9 {
			carry = 1
		}
		want := pair{p.sec + dsec + carry, p.fr + dfr - carry*e9}
		if got != want {
			t.Fatalf("Add: %v + %v = %v, pair model says %v", p, d, got, want)
		}
		// Before is the lexicographic order of the pairs
		u := time.Unix(r.Int63n(8000000000), r.Int63n(e9))
		if r.Intn(4) == 0 {
			u = time.Unix(ts.Unix(), r.Int63n(e9))
		}
		if ts.Before(u) != less(p, pairOf(u)) {
			t.Fatalf("Before(%v,%v)", ts, u)
		}
		// Unix() is the seconds component; time.Unix(sec,0) has pair (sec,0)
		if x := time.Unix(p.sec, 0); pairOf(x) != (pair{p.sec, 0}) {
			t.Fatalf("time.Unix(%d,0) = %v", p.sec, pairOf(x))
		}
		// Round(time.Second)
		rp := pairOf(ts.Round(time.Second))
		wr := pair{p.sec, 0}
		if p.fr >= 500000000 {
			wr.sec++
		}
		if rp != wr {
			t.Fatalf("Round(%v) = %v, pair model says %v", p, rp, wr)
		}
		// Duration.Round is a function of its arguments
		if d.Round(time.Second) != d.Round(time.Second) {
			t.Fatal("Duration.Round not deterministic")
		}
	}
	// monotone clock (wall readings stripped of the monotonic part can in principle step back; the
	// model speaks about readings as time.Now returns them, compared with Before)
	a := time.Now()
	b := time.Now()
	if b.Before(a) {
		t.Fatalf("two consecutive clock readings went backwards: %v then %v", a, b)
	}
}

// ---- bitset.spec ---------------------------------------------------------------------------

func TestBitsetModel(t *testing.T) {
	r := rnd()
	for i := 0; i < 2000; i++ {
		n := uint(r.Intn(200))
		b := bitset.New(n)
		model := map[uint]bool{}
		mlen := n
		if b.Len() != n {
			t.Fatalf("New(%d).Len() = %d", n, b.Len())
		}
		for step := 0; step < 60; step++ {
			k := uint(r.Intn(260))
			switch r.Intn(4) {
			case 0:
				if b.Set(k) != b {
					t.Fatal("Set does not return the receiver")
				}
				model[k] = true
				if k >= mlen {
					mlen = k + 1 // Set GROWS the set
				}
			case 1:
				if b.Clear(k) != b {
					t.Fatal("Clear does not return the receiver")
				}
				if k < mlen {
					model[k] = false
				}
			case 2:
				if got, want := b.Test(k), k < mlen && model[k]; got != want {
					t.Fatalf("Test(%d) = %v, model says %v (len %d)", k, got, want, mlen)
				}
			default:
				idx, ok := b.NextClear(k)
				if ok {
					if !(idx >= k && idx < mlen && !model[idx]) {
						t.Fatalf("NextClear(%d) = %d,true with len %d", k, idx, mlen)
					}
					for j := k; j < idx; j++ {
						if !model[j] {
							t.Fatalf("NextClear(%d) = %d skipped clear bit %d", k, idx, j)
						}
					}
				} else {
					if idx != 0 {
						t.Fatalf("NextClear(%d) = %d,false", k, idx)
					}
					for j := k; j < mlen; j++ {
						if !model[j] {
							t.Fatalf("NextClear(%d) = none, but bit %d is clear (len %d)", k, j, mlen)
						}
					}
				}
			}
			if b.Len() != mlen {
				t.Fatalf("Len() = %d, model says %d", b.Len(), mlen)
			}
		}
	}
}
