#!/bin/sh
# selftest/one.sh <mutant|neutral> <ID> <patch> : applies one patch to a scratch worktree of /repo
# (under /tmp, removed afterwards) and runs the check of <ID> against it.
set -u
cd "$(dirname "$0")/.."
export GOFLAGS=-mod=mod GOPROXY=off GOSUMDB=off GOTOOLCHAIN=local
kind=$1; id=$2; patch=$3
name=$(basename "$(dirname "$patch")")/$(basename "$patch")
wt=$(mktemp -d /tmp/govc-st-XXXXXX)
rmdir "$wt"
git -C /repo worktree add -q --detach "$wt" HEAD || exit 2
cleanup() { git -C /repo worktree remove --force "$wt" 2>/dev/null; }
if ! git -C "$wt" apply "$patch" 2>/dev/null; then
  echo "SELFTEST-ERROR $kind $id $name: patch does not apply"; cleanup; exit 2
fi
if ! (cd "$wt" && go build ./... >/dev/null 2>&1); then
  echo "SELFTEST-ERROR $kind $id $name: does not compile"; cleanup; exit 2
fi
out=$(bin/govc check -prop "$id" -repo "$wt" -no-evidence 2>&1); rc=$?
cleanup
if [ "$kind" = mutant ]; then
  if [ $rc -eq 1 ] && echo "$out" | grep -q "^VIOLATION property=$id "; then
    echo "ok   mutant  $id $name: $(echo "$out" | grep -c '^VIOLATION') violation(s): $(echo "$out" | grep '^VIOLATION' | head -1 | sed 's/.*obligation=//' | cut -c1-110)"
  else
    echo "MISS mutant  $id $name: exit $rc"; echo "$out" | tail -3; exit 1
  fi
else
  if [ $rc -eq 0 ]; then echo "ok   neutral $id $name"; else echo "ALARM neutral $id $name: exit $rc"; echo "$out" | grep -v '^KNOWN' | tail -5; exit 1; fi
fi
