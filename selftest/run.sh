#!/bin/sh
# Self-test of the checks: every patch under selftest/mutants/<ID>/ must make
# `./check <ID>` report a VIOLATION (exit 1); every patch under selftest/neutral/
# must leave the listed checks silent (exit 0). Patches are applied to a scratch
# git worktree of /repo under /tmp, which is removed afterwards.
# usage: selftest/run.sh [ID ...]        (default: all)
set -u
cd "$(dirname "$0")/.."
export GOFLAGS=-mod=mod GOPROXY=off GOSUMDB=off GOTOOLCHAIN=local
ids="$*"
fail=0
run_one() { # kind id patch
  kind=$1; id=$2; patch=$3
  wt=$(mktemp -d /tmp/govc-st-XXXXXX)
  rmdir "$wt"
  git -C /repo worktree add -q --detach "$wt" HEAD || return 2
  if ! git -C "$wt" apply "$patch" 2>/dev/null; then
    echo "SELFTEST-ERROR $kind $id $(basename $patch): patch does not apply"; git -C /repo worktree remove --force "$wt"; return 2
  fi
  if ! (cd "$wt" && go build ./... >/dev/null 2>&1); then
    echo "SELFTEST-ERROR $kind $id $(basename $patch): does not compile"; git -C /repo worktree remove --force "$wt"; return 2
  fi
  out=$(bin/govc check -prop "$id" -repo "$wt" -no-evidence 2>&1); rc=$?
  git -C /repo worktree remove --force "$wt"
  if [ "$kind" = mutant ]; then
    if [ $rc -eq 1 ] && echo "$out" | grep -q "^VIOLATION property=$id "; then
      echo "ok   mutant  $id $(basename $patch): $(echo "$out" | grep -c '^VIOLATION') violation(s): $(echo "$out" | grep '^VIOLATION' | head -1 | sed 's/.*obligation=//' | cut -c1-110)"
    else
      echo "MISS mutant  $id $(basename $patch): exit $rc"; echo "$out" | tail -3; return 1
    fi
  else
    if [ $rc -eq 0 ]; then echo "ok   neutral $id $(basename $patch)"; else echo "ALARM neutral $id $(basename $patch): exit $rc"; echo "$out" | tail -5; return 1; fi
  fi
}
for d in selftest/mutants/*/; do
  id=$(basename "$d")
  if [ -n "$ids" ] && ! echo " $ids " | grep -q " $id "; then continue; fi
  for p in "$d"*.patch; do [ -f "$p" ] || continue; run_one mutant "$id" "$PWD/$p" || fail=1; done
done
# the changes seeded by independent sub-agents (seeded/<ID>-<name>/patch.diff) are must-fail too
for d in seeded/*/; do
  id=$(basename "$d" | cut -d- -f1)
  if [ -n "$ids" ] && ! echo " $ids " | grep -q " $id "; then continue; fi
  [ -f "$d/patch.diff" ] || continue
  cp "$d/patch.diff" "/tmp/govc-seed-$(basename $d).patch"
  run_one mutant "$id" "/tmp/govc-seed-$(basename $d).patch" || fail=1
  rm -f "/tmp/govc-seed-$(basename $d).patch"
done
for p in selftest/neutral/*.patch; do
  [ -f "$p" ] || continue
  for id in $(sed -n 's/^# checks: //p' "$p"); do
    if [ -n "$ids" ] && ! echo " $ids " | grep -q " $id "; then continue; fi
    run_one neutral "$id" "$PWD/$p" || fail=1
  done
done
exit $fail
