#!/bin/sh
# Self-test of the checks: every patch under selftest/mutants/<ID>/ and every seeded change
# (seeded/<ID>-<name>/patch.diff) must make `./check <ID>` report a VIOLATION (exit 1); every patch
# under selftest/neutral/ (header line "# checks: <IDs>") must leave the listed checks silent
# (exit 0). Patches are applied to scratch git worktrees of /repo under /tmp, removed afterwards.
# usage: [JOBS=n] selftest/run.sh [ID ...]     (default: all; mutants run JOBS at a time, default 3;
#        neutral patches run one at a time so that solver timeouts are not provoked by contention)
set -u
cd "$(dirname "$0")/.."
ids="$*"
want() { [ -z "$ids" ] || echo " $ids " | grep -q " $1 "; }
tasks=$(mktemp /tmp/govc-tasks-XXXXXX)
for d in selftest/mutants/*/; do
  id=$(basename "$d"); want "$id" || continue
  for p in "$d"*.patch; do [ -f "$p" ] && echo "mutant $id $PWD/$p" >> "$tasks"; done
done
for d in seeded/*/; do
  id=$(basename "$d" | cut -d- -f1); want "$id" || continue
  [ -f "$d/patch.diff" ] && echo "mutant $id $PWD/${d}patch.diff" >> "$tasks"
done
fail=0
xargs -P "${JOBS:-3}" -L1 selftest/one.sh < "$tasks" || fail=1
rm -f "$tasks"
for p in selftest/neutral/*.patch; do
  [ -f "$p" ] || continue
  for id in $(sed -n 's/^# checks: //p' "$p"); do
    want "$id" || continue
    selftest/one.sh neutral "$id" "$PWD/$p" || fail=1
  done
done
exit $fail
