#!/bin/sh
# tools/mkmut.sh <ID> <name> <file-relative-to-repo> <sed-expression>  : records a one-line mutant as a patch
set -eu
id=$1; name=$2; file=$3; expr=$4
wt=$(mktemp -d /tmp/govc-mk-XXXXXX); rmdir "$wt"
git -C /repo worktree add -q --detach "$wt" HEAD
sed -i "$expr" "$wt/$file"
mkdir -p /verif/selftest/mutants/$id
if git -C "$wt" diff --quiet; then echo "no change for $name" >&2; git -C /repo worktree remove --force "$wt"; exit 1; fi
git -C "$wt" diff > /verif/selftest/mutants/$id/$name.patch
git -C /repo worktree remove --force "$wt"
echo "recorded $id/$name"
