#!/bin/sh
# Runs the validation tests of the assumed contracts (contracts/assumed/*.spec) against the real
# libraries: testing, not proof (DESIGN.md section 3). Offline; builds against /repo's module.
set -eu
cd /verif/assumedtest
export GOFLAGS=-mod=mod GOPROXY=off GOSUMDB=off GOTOOLCHAIN=local
cp /repo/go.sum .
go test -count=1 ./...
