#!/bin/sh
# tools/tryseed.sh <ID> <dir with patch.diff + seed_demo_test.go> [check IDs...]
# Confirms a seeded change (compiles, suite passes, demo fails with / passes without) in a scratch
# worktree and runs the given checks against it. Removes the worktree afterwards.
set -u
export GOFLAGS=-mod=mod GOPROXY=off GOSUMDB=off GOTOOLCHAIN=local
id=$1; dir=$(realpath $2); shift 2; checks="${*:-$id}"
wt=$(mktemp -d /tmp/govc-seed-XXXXXX); rmdir $wt
git -C /repo worktree add -q --detach $wt HEAD || exit 2
pkgdir=$(grep -m1 -o 'plugins/[a-z/0-9_]*\|server\|config' $dir/seed_demo_test.go | head -1)
[ -n "${SEED_PKG:-}" ] && pkgdir=$SEED_PKG
echo "demo package dir: $pkgdir"
cp $dir/seed_demo_test.go $wt/$pkgdir/seed_demo_test.go
(cd $wt && go test -vet=off -count=1 -run TestSeedDemo ./$pkgdir/ >/tmp/seed_clean.log 2>&1); echo "demo on clean tree: rc=$? (want 0)"
rm $wt/$pkgdir/seed_demo_test.go
git -C $wt apply $dir/patch.diff || { echo "patch does not apply"; git -C /repo worktree remove --force $wt; exit 2; }
(cd $wt && go build ./... && go test -vet=off -count=1 ./... >/tmp/seed_suite.log 2>&1); echo "suite with change: rc=$? (want 0)"
cp $dir/seed_demo_test.go $wt/$pkgdir/seed_demo_test.go
(cd $wt && go test -vet=off -count=1 -run TestSeedDemo ./$pkgdir/ >/tmp/seed_mut.log 2>&1); echo "demo with change: rc=$? (want non-zero)"
rm $wt/$pkgdir/seed_demo_test.go
for c in $checks; do
  out=$(/verif/bin/govc check -prop $c -repo $wt -no-evidence 2>&1); rc=$?
  echo "check $c: rc=$rc  $(echo "$out" | grep -c '^VIOLATION') violation(s)"; echo "$out" | grep '^VIOLATION' | sed 's/.*obligation=//' | cut -c1-150 | head -4
done
git -C /repo worktree remove --force $wt
