#!/usr/bin/env python3
"""Regenerates /verif/MANIFEST.json from the table below (claimed checks) and the
list of properties not (yet) claimed. Run after changing what is claimed."""
import json, subprocess, os

V = "/verif"
COMMON_NOTE = ("Trusted base: govc itself (home-grown VC generator over go/ssa naive form, its memory model and contract evaluator); "
               "the SMT solvers (z3 5.1.0, z3 4.8.12, cvc5 1.0.3; one `unsat` suffices in the quick tier, two agreeing back ends are required in the thorough tier); "
               "go/ssa's translation; gc/amd64 integer sizes (exact 64-bit vectors, not mathematical integers); every assumed contract on a dependency "
               "(/verif/contracts/assumed/*.spec) - each one used is listed by name in the evidence file of the run.")

CHECKS = {
 "C20": dict(
  text=("Deductive proof, for all inputs with no bound, of postconditions written from the property statement on the real functions "
        "allocators.Offset and allocators.AddPrefixes (128/192-bit bit-vector specifications: exact block index or overflow error; "
        "exact n-th block base or ErrOverflow, never a wrapped address), plus the contract-level lemma that the two are inverse. "
        "Both functions are loop-free, so full-domain symbolic inputs are a complete proof; the prefix length is case-split into "
        "its 129 values (a complete finite domain) when the symbolic query is not decided in 4 s. Safety (bounds, nil) and frame "
        "(arguments not modified) obligations are included."),
  note=COMMON_NOTE + " Assumed here: bytes.Compare orders equal-length big-endian byte strings like the integers they encode; errors.New returns a fresh non-nil error. "
       "Package initialisation (ErrOverflow/ErrNoAddrAvail non-nil, distinct, never reassigned) is itself verified (allocators.init) and a scan shows no other writer.",
  technique="contract-based deductive verification: WP/VC generation over go/ssa of the real code, SMT (bit-vector) discharge",
  ref="DESIGN.md section 7 (C20)"),
}

ALLOC_NOTE = COMMON_NOTE + (" Assumed here: the bitset contracts (/verif/contracts/assumed/bitset.spec, written from bitset v1.22.0: New/Test/Set/Clear/NextClear over the ghost state (length, bits), "
  "including that Set GROWS the set, so staying below the length is an obligation of the allocator invariant); byte-precise contracts of net.IP.To4/To16/Mask/Equal, net.IPMask.Size, net.CIDRMask "
  "(net.spec, from net/ip.go, partly restricted to 16-byte operands); sync.Mutex ownership (sync.spec); bytes.Compare, errors.New, fmt.Errorf; logger.GetLogger is a TRUSTED in-repo contract (conditional defer). "
  "Schedules are covered by the lock-invariant meta-argument of DESIGN 2.9 (paper argument, not machine-checked): every access to the bitmap is proved to happen with the allocator's mutex held and the invariant is proved at every release. "
  "bitset.New is assumed not to run out of memory.")
CHECKS.update({
 "C04": dict(
  text=("Deductive proof on the real bitmap.(*IPv4Allocator).{Allocate,Free}, NewIPv4Allocator, bitmap.(*Allocator).{Allocate,Free,toIndex,toPrefix,contains}, NewBitmapAllocator: "
        "each Allocate postcondition pins the whole abstract view (outstanding-set' = outstanding-set + {returned block}, and the returned block was NOT outstanding before), Free removes exactly one outstanding block, "
        "the data-structure invariant (bitmap length = number of blocks, computed without wrap-around; no bit above it) is established by the constructors and preserved by every operation, so it holds after every history by induction; "
        "contract-level lemmas show that distinct block indices denote disjoint blocks (IPv4: distinct addresses; IPv6: /page blocks with different bases, for all 129 allocation sizes). "
        "Lock obligations show every bitmap access happens under the allocator mutex and no exit leaves it held. The allocators.Allocator interface contract relied on by the plugins (abstract set of outstanding blocks: a successful Allocate returns a block that was not outstanding and adds exactly it) is checked against the real (*IPv4Allocator).Allocate / NewIPv4Allocator and (*Allocator).Allocate / NewBitmapAllocator as refinement obligations (abstraction functions over the bitmaps; for IPv6 with the geometry lemma v6_block_of_index, proved separately for all 129 page sizes)."),
  note=ALLOC_NOTE + " Free is checked against the interface contract too (IPv4 pools: succeeds iff outstanding, the view loses that block and no other; both pools: adds nothing, a failed Free changes nothing); which block a prefix-pool Free releases is pinned by the concrete contract only.", technique="contract-based deductive verification: data-structure invariant + whole-view postconditions + geometry lemmas, VCs over go/ssa discharged by SMT", ref="DESIGN.md section 7 (C04-C07)"),
 "C05": dict(
  text=("Deductive proof of the postconditions transcribed from the statement: a successful allocation is a block of the pool (IPv4: /32 between start and end inclusive; IPv6: 16-byte base, inside the pool, aligned to the allocation length, "
        "mask length = max(allocation length, length of a 16-byte canonical hint mask), other hints count as none); Allocate fails iff every block is outstanding, then returns ErrNoAddrAvail and changes nothing; the constructors "
        "size the bitmap to exactly N blocks (widened arithmetic, so the full IPv4 range is covered) and accept exactly the representable pools. No bound on pool size, history length or hint."),
  note=ALLOC_NOTE, technique="contract-based deductive verification (postconditions + invariant), SMT bit-vector/array discharge", ref="DESIGN.md section 7 (C04-C07)"),
 "C06": dict(
  text=("Deductive proof that Free (both allocators) returns nil iff the (masked) prefix lies in the pool and its block is outstanding, then clears exactly that bit, and otherwise returns an error leaving the whole outstanding set unchanged - "
        "for prefixes at any distance below or above the pool. toIndex is specified totally (absolute block distance) so that an omitted containment test shows up as a failed postcondition with a replayable model."),
  note=ALLOC_NOTE, technique="contract-based deductive verification (postconditions over the whole abstract view), SMT discharge", ref="DESIGN.md section 7 (C04-C07)"),
 "C07": dict(
  text=("Deductive proof of the postcondition `hint names a free block of the pool => the allocation is exactly that block` for both allocators: IPv4 hints in 4-byte and 16-byte IPv4-mapped form; IPv6 hints anywhere inside a block, "
        "in 16-byte form or as a 4-byte address read as its IPv4-mapped form."),
  note=ALLOC_NOTE, technique="contract-based deductive verification (postcondition), SMT discharge", ref="DESIGN.md section 7 (C04-C07)"),
})

SRV_NOTE = COMMON_NOTE + (" Assumed here: the packet codec insomniacslk/dhcp (contracts in dhcpv4.spec / dhcpv6.spec, written from its source: what FromBytes, NewReplyFromRequest, NewReplyFromMessage, NewAdvertiseFromSolicit, "
  "NewRelayReplFromRelayForw, ToBytes, the option maps/lists and the option constructors do) - its own correctness and panic-freedom on arbitrary bytes are NOT decided (code outside /repo); "
  "the ghost effect contracts of effects.spec (a datagram handed to (*ipvN.PacketConn).WriteTo or to sendEthernet's socket is `sent`); the kernel delivers the receiving interface index with every datagram; "
  "`preserves` clauses: handlers cannot reach the listener object or its handler slice; net.IP predicates are uninterpreted functions of the address bytes at call time; sendEthernet's ghost effect is a trusted-ensures contract (its body is checked for safety only). "
  "Every built-in handler is verified against the Handler4/Handler6 type contract (refine obligations), and calls through handler values rely on that contract only.")
CHECKS.update({
 "C11": dict(
  text=("Deductive proof of postconditions on the real server.(*listener4).HandleMsg4 over ghost `sent` state: at most one datagram is sent; one is sent only for a BOOTREQUEST whose message type is DISCOVER or REQUEST; the packet sent is the response "
        "returned by the handler chain, it is a BOOTREPLY with the request's xid, htype, chaddr, flags and giaddr, echoes options 82 and 61, and is an OFFER for a DISCOVER / ACK for a REQUEST. The loop over handlers carries this as an inductive invariant, "
        "using the frame half of the Handler4 type contract (handlers leave the request, the reply header, options 53/61/82 untouched), which is itself proved for every built-in DHCPv4 handler."),
  note=SRV_NOTE, technique="contract-based deductive verification: postconditions over ghost effect state, loop invariant, function-type contract with refinement obligations", ref="DESIGN.md section 7 (C11, C15)"),
 "C12": dict(
  text=("Deductive proof of postconditions on the real server.(*listener6).HandleMsg6: a datagram is sent only for a parsed packet whose innermost message has a supported type; the reply kind follows the table (ADVERTISE for SOLICIT, REPLY with Rapid Commit "
        "for SOLICIT+RC, REPLY for the six other types), carries the transaction id and the client-id option of the request; for a Relay-Forward the datagram is NewRelayReplFromRelayForw(request, inner reply); it goes to the source address and is pinned to the "
        "receiving interface (bound interface first) iff that address is link-local. The Handler6 type contract's frame clauses are proved for every built-in DHCPv6 handler."),
  note=SRV_NOTE + " The per-layer mirroring of link-address, peer-address and Interface-ID is inside NewRelayReplFromRelayForw (library): assumed, not proved.",
  technique="contract-based deductive verification: postconditions over ghost effect state, loop invariant, function-type contract", ref="DESIGN.md section 7 (C12)"),
 "C13": dict(
  text=("Deductive proof, via a ghost call log appended by the call rule for Handler4/Handler6 values, that HandleMsg4/HandleMsg6 invoke l.handlers[0..k) in slice order, each once, each with the original request and the response returned by its predecessor, "
        "stopping after the first handler that signals stop (k < len only then); what is sent is the last response, and nothing is sent when it is nil. `Built-in handlers return nil only together with stop` is a clause of the type contracts proved for every built-in handler. "
        "plugins.LoadPlugins (second ghost log, of setup calls): every setup call is made through the plugin registered under the listed name, every handler appended is the non-nil result of the setup call just made, on success the number of handlers per protocol equals the number of setup calls and every listed plugin name is a registered one (an unknown name cannot be skipped), and any error (unknown name, failing setup, nil handler) returns no handlers. server.Start: every listener appended to the server (and served) was given exactly the handler slice of its protocol that LoadPlugins returned (keyed assertions), and LoadPlugins' preconditions hold there."),
  note=SRV_NOTE + " Order preservation by append is covered per iteration (the appended element is the latest setup result), not as a whole-slice equality. The LoadPlugins contract assumes (preserves clause) that setup functions cannot reach the configuration object or the plugin registry.",
  technique="contract-based deductive verification: ghost call log, quantified loop invariant, function-type contracts", ref="DESIGN.md section 7 (C13)"),
 "C14": dict(
  text=("Deductive proof of the RFC 8415 section 16 decision matrix as a postcondition of serverid.Handler6 (discard iff SOLICIT/CONFIRM/REBIND carry a Server Identifier, REQUEST/RENEW/DECLINE/RELEASE carry none, or the identifier differs), and that a passed reply "
        "carries exactly one Server Identifier option equal to the configured DUID; for serverid.Handler4: a request naming another server in siaddr or in option 54 is dropped, otherwise siaddr and option 54 of the reply are the configured address. Other options are untouched."),
  note=SRV_NOTE + " DUID equality is the library's DUID.Equal (uninterpreted).", technique="contract-based deductive verification: decision-table postconditions", ref="DESIGN.md section 7 (C14)"),
 "C15": dict(
  text=("Deductive proof of the RFC 2131 section 4.1 addressing table as five postconditions of HandleMsg4 over the ghost destination (giaddr set -> giaddr:67; else NAK -> broadcast:68; else ciaddr set -> ciaddr:68; else broadcast flag -> broadcast:68; "
        "else link-level unicast of this response on the pinned interface), and that the control message pins the interface (bound interface first, else the receiving one) exactly when the destination is the broadcast address, link-local, or the link-level path."),
  note=SRV_NOTE + " For the link-level path, keyed assertions in sendEthernet show that the layers handed to the serialiser are addressed to the client's hardware address and to yiaddr, UDP 67 -> 68, and that the frame is sent on the given interface; what gopacket serialises from those layers and the bytes leaving the socket are not decided.", technique="contract-based deductive verification: decision-table postconditions over ghost effect state", ref="DESIGN.md section 7 (C11, C15)"),
 "C17": dict(
  text=("Deductive proof of one postcondition table per option plugin on the real handlers (dns, mtu, netmask, router, searchdomains, staticroute, lease_time, ipv6only, autoconfigure, nbp, sleep; DHCPv4 and DHCPv6 variants): under the stated condition the option map/list "
        "of the response is updated at exactly the plugin's code with the option built by the library constructor from the configured value, otherwise it is unchanged; all other codes are untouched; stop flags as stated (ipv6only stops only for clients that list option 108 explicitly; "
        "autoconfigure drops an address-less OFFER unless the client sent option 116; nbp adds the boot-file options at most once)."),
  note=SRV_NOTE + " Wire encodings are the library constructors' (optenc is an uninterpreted function of the constructed option); searchdomains only proves presence of the option.", technique="contract-based deductive verification: decision-table postconditions, frame over option maps", ref="DESIGN.md section 7 (C17)"),
})

PFX_NOTE = SRV_NOTE + (" For the prefix plugin: recordKey is verified against `key = wire form of the DUID` (DUID.ToBytes assumed to return that wire form); the Allocator interface contract used by the plugins has no precondition about the allocator's well-formedness "
   "(object-invariant meta-argument: constructors establish it, methods preserve it, fields are unexported - each of those is verified in C04-C07); time.Now is unconstrained.")
CHECKS.update({
 "C08": dict(
  text=("Deductive proof on the real prefix.(*Handler).Handle (six nested loops, each with an inductive invariant): no panic and no exit with the plugin mutex held for any request and any lease table (safety and lock obligations); "
        "every IA_PD of the request is answered by exactly one IA_PD option with the same IAID (the response gains one option 25 per request IA_PD unless the handler stops with nil); the handler's state invariant is established by setupPrefix "
        "(receiver-invariant obligation) and preserved. The lease handed out and recorded for a new allocation is the block the allocator returned (keyed assertions); leases of different client identifiers are kept under different keys (recordKey = wire form of the DUID). That delegated blocks are in the pool, aligned, correctly sized and disjoint is the allocator's contract (C04/C05), which setupPrefix is proved to call with a well-formed IPv6 pool. "
        "Lifetimes: every lease put into a reply (new, exactly matched or re-offered) runs at least a full lease duration from the latest clock reading when it is sent - in particular a renewed lease is sent as renewed, not from a stale copy (precondition of addPrefix over the assumed time model); preferred = valid by construction. NOT proved: the upper bound valid <= 1h (needs an invariant over every stored expiry) and positivity beyond `the handler takes less than the lease duration between reading the clock and building the option`."),
  note=PFX_NOTE, technique="contract-based deductive verification: loop invariants, safety/lock obligations, structural postcondition over ghost option counts", ref="DESIGN.md section 7 (C08, C09)"),
 "C09": dict(
  text=("Deductive proof on prefix.(*Handler).Handle of (a) the loop invariant `the list that will be recorded for the client grows by exactly one entry per successful allocation made while answering this IA_PD` (every delegated prefix is remembered, "
        "however many the reply delegates), that this list is in the table under the client's key when the mutex is released, that each entry is the block the allocator returned; (b) a hint that names no address and no length (no IAPrefix option, zero-length IAPrefix, ::/0) is served from the client's existing leases - invariants of the two re-offer loops over the satisfied/given-out bitsets and the keyed assertion that a new block is allocated for such a hint only when every lease the client holds has already been handed out in this IA_PD (so a repeated hint-less request consumes nothing); and (c) the assertion that a hint carrying no address is handled as an empty hint (it reaches the branch that hands the client its existing leases, instead of being compared with :: and sent on to a fresh allocation). "
        "The full statement `a renewal/repeat returns P with a lifetime not shorter than what remained` is NOT proved: it needs invariants over the two local bitsets and time arithmetic (DESIGN.md section 8)."),
  note=PFX_NOTE, technique="contract-based deductive verification: loop invariant over a ghost allocation counter, keyed assertion", ref="DESIGN.md section 7 (C08, C09)"),
 "C19": dict(
  text=("Deductive proof, for dns, mtu, netmask, router, searchdomains, staticroute, lease_time, ipv6only, autoconfigure, nbp, sleep, server_id and prefix, that (1) every setup function is panic-free for every argument vector (safety obligations: argument indexing, nil results of parsers) "
        "and (2) a successful setup establishes the plugin invariants (post#plugin-invariant obligations; e.g. server_id: a 4-byte address; nbp: options carry their codes and serialise; staticroute: every appended route is IPv4 with a 32-bit mask; prefix: a well-formed 16-byte IPv6 pool and a handler whose state invariant holds), "
        "under which (3) every handler obligation - safety, and the serialisability precondition of every option insertion (Options.Update calls Value.ToBytes) - is discharged; (4) a scan shows the configuration globals are written only by their setup functions. "
        "`The reply parses back to the same options` is the codec's FromBytes/ToBytes round trip: assumed. range: setupRange returns a handler whose state invariant holds (receiver-invariant obligations: table well-formed, records distinct, database mirrored - from a trusted clause about the loader -, allocator and database present, mutex free). file is covered by C10 only as far as claimed there."),
  note=SRV_NOTE + " The step from `every appended route is IPv4` to `every configured route is IPv4` (staticroute) is not machine-checked. Inductive plugin invariants are assumed to hold for zero-valued globals.", technique="contract-based deductive verification: setup postconditions (plugin invariants) + handler preconditions + write-frame scan", ref="DESIGN.md section 7 (C19)"),
})

CHECKS.update({
 "C02": dict(
  text=("Deductive proof on the real rangeplugin.(*PluginState).Handler4, for every request and every lease table satisfying the state invariant: a client that already has a binding is answered with exactly that address and the table entry is untouched "
        "(no binding is ever changed or removed: stickiness); an unknown client is bound to an address obtained from exactly one successful Allocate call of this invocation; when Allocate fails the handler returns (nil, stop), changes no binding and consumes nothing, and "
        "this happens only for clients without a binding; known clients consume no allocator block; option 51 carries the configured lease time (rounded as the code rounds it); the handler leaves the plugin mutex released and preserves the state invariant (including: every client has a record object of its own). Every access to the table happens with the mutex held, and the table is HAVOCKED at every acquisition (what other goroutines left there, up to the invariant), so the postconditions hold for concurrent requests as well. "
        "In range / one client per address: an invariant of the table's mutex (proved at every release and after setupRange, assumed at every acquisition) says that every bound address is an outstanding block of the allocator's abstract view, lies between the pool bounds, and that bound addresses are pairwise different; yiaddr of every reply lies between the pool bounds, which setupRange proves to be the configured start and end. "
        "This uses the allocators.Allocator interface contract (a successful Allocate returns a block of the pool that was not outstanding and adds exactly it; an IPv4 hint naming a free block of the pool is honoured), which is machine-checked against the real (*IPv4Allocator).Allocate and NewIPv4Allocator through abstraction functions over the bitmap (refinement obligations). "
        "Restart: setupRange makes exactly one successful Allocate call per loaded record (loop invariant over the map-iteration counter) or refuses to start, every record visited is re-marked at its stored address (invariant over the visited keys), and the handler's state invariant is established."),
  note=SRV_NOTE + (" Assumed, not proved: the plugin is the only user of its allocator (the abstract view is treated as part of the state the plugin mutex protects: paper argument - unexported field, no other reference created); the bytes of a stored address are never written after the record is created; net.IP.String is injective on IPv4 addresses (dotted quad), which is how setupRange concludes that the block it re-marked is the stored address; HardwareAddr.String is an uninterpreted function of the address value; `a range over a map delivers each key exactly once` is the language guarantee built into the iteration counter; setupRange assumes (preserves clause) that opening and reading the database cannot reach the allocator, the database handle field or the allocation counter."),
  technique="contract-based deductive verification: postconditions over the whole lease map (quantified), state invariant, lock obligations", ref="DESIGN.md section 7 (C02)"),
 "C03": dict(
  text=("Deductive check of three obligations that contracts on /repo code can express. (i) Every row the handler writes must be loadable by loadRecords, i.e. net.ParseMAC accepts the stored text of the hardware address "
        "(precondition of saveIPAddress at both call sites in Handler4, source-derived contracts of HardwareAddr.String and ParseMAC): REFUTED on the pinned tree for every hardware-address length other than 6, 8 and 20 (replayed: restart fails), listed as a known finding, proved outside that input class. "
        "(ii) Over a ghost view of the database (one row per hardware-address text, replaced by a successful saveIPAddress): while no write has failed, the database holds exactly the bindings of the in-memory table with their addresses and expiries - an invariant of the table's mutex, proved at every release and after setupRange. "
        "(iii) Expiry: every row written, and the record kept for the client, expires no earlier than latest-clock-reading + lease time in whole seconds (precondition of saveIPAddress and postcondition of Handler4), over an assumed linear model of package time. (iv) Restart: setupRange re-marks every loaded binding in the allocator at its stored address (exactly one successful allocation per record, re-marked addresses outstanding and pairwise different) or refuses to start, so a restart never leaves a stored binding's address free for another client. Plus safety of the storage functions."),
  note=SRV_NOTE + " sqlite (cgo) is outside the verifier: database/sql calls are assumed not to touch Go memory; what the database stores and returns (column affinity, atomicity, crash points inside a statement) is NOT modelled - two TRUSTED clauses stand for it (saveIPAddress replaces the client's row or fails leaving the view unchanged; the table loadRecords returns is the database view) and no bounded stand-in is run. After a failed write (only logged by the handler) nothing is claimed. time.spec (assumed): monotone clock, exact Add/Before/Unix/Round in (seconds, nanoseconds) pair form for 1970..2220 and lease times of 0..~95 years; stored expiries are taken to be plausible Unix times (0..8e9 s).",
  technique="contract-based deductive verification: precondition at call sites; known-finding carve-out re-proved", ref="DESIGN.md section 7 (C03)"),
 "C10": dict(
  text=("Deductive proof on the real file plugin: the loaders look at every line of the file (an unterminated last line included) and return a fresh table whose every address is of the instance's family only if EVERY line is empty, a comment, or `hardware address + address of the right family`; otherwise an error (quantified loop invariants over the parsing loops); loadFromFile is all-or-nothing "
        "(error => the table pointer in force is unchanged; success => it is replaced as a whole by the freshly loaded table, under the write lock); Handler4 answers a listed hardware address with exactly the listed address and stops, and leaves the response alone otherwise; "
        "Handler6 adds nothing when no IA_NA was requested or the client is not listed, and for a listed client exactly one IA_NA holding exactly one IA address equal to the listed one; handlers never modify the table; every access to the table is under recLock and no exit leaves it held. `Each instance serves from its own file` is stated as a stability obligation "
        "(the other protocol's setup must preserve this instance's table invariant): REFUTED on the pinned tree (single shared table; replayed) and listed as two known findings."),
  note=SRV_NOTE + " Not decided: that each accepted line ends up in the table under its own key (strings.Fields, HasPrefix, ParseMAC, ParseIP, ExtractMAC are uninterpreted functions of their arguments; bytes.Split is pinned by a spec function only in its number of pieces), and `eventually` after an update (liveness through fsnotify).",
  technique="contract-based deductive verification: loop invariants over maps, postconditions, lock obligations, plugin-invariant stability obligations", ref="DESIGN.md section 7 (C10)"),
})

CHECKS.update({
 "C01": dict(
  text=("Deductive no-panic / no-lock-leak / at-most-one-reply proof over the whole datagram path of the real code: both Serve loops (pooled buffer type and capacity, spawn preconditions), HandleMsg4, HandleMsg6, sendEthernet (Go-level part), "
        "every built-in Handler4/Handler6 and the sleep closures, the allocators, addPrefix/dup/samePrefix/recordKey, saveIPAddress - about 2000 obligations generated without annotation for every nil dereference, nil-map store, index and slice bound (including capacity), "
        "failed type assertion, division, negative make, reachable panic/log.Fatal, plus lock obligations (no Lock of a held mutex, no Unlock of a free one, every exit leaves every touched mutex as it was at entry - so `a panic leaves the plugin mutex held` is covered by proving there is no panic), "
        "termination by loop shape (range loops over a slice or map evaluated once; other loops need a decreases clause or a stated assumption), and the postcondition `sent == old(sent) or old(sent)+1` of HandleMsg4/6 with `handlers send nothing` from the type contracts. "
        "Histories are covered by induction: every handler is proved under its state invariant and proved to preserve it."),
  note=SRV_NOTE + " Main residue: panic-freedom and termination of the codec (FromBytes/ToBytes on arbitrary bytes), gopacket, sqlite, logrus, and blocking inside WriteTo/Sendto/time.Sleep are outside /repo and assumed. The receive loops are meant to run forever; loadRecords' row loop is assumed finite.",
  technique="contract-based deductive verification: annotation-free safety obligations, lock obligations, loop invariants, type contracts", ref="DESIGN.md section 7 (C01)"),
 "C16": dict(
  text=("Lock-invariant reasoning, machine-checked per function: (1) every access to state declared `guard`ed (allocator bitmaps, PluginState.Recordsv4, Handler.Records, file.StaticRecords) happens with its mutex held (read-held suffices for reads under the RWMutex); "
        "(2) Lock/RLock are never called on a mutex the goroutine holds, Unlock/RUnlock only on one it holds, and every exit leaves each touched mutex as at entry; (3) for the two allocators and the range plugin's lease table the state protected by the mutex is HAVOCKED at every acquisition (what other goroutines left there, "
        "up to the invariant, which is an obligation at every release) and the C02 and C04-C07 postconditions - which count for this check as well - are proved about the critical section, so a check-then-act split over two critical sections fails; (4) the receive-buffer pool only holds full-capacity buffers, every datagram handler owns its receive buffer (ownership token set by Pool.Get, transferred to the handler goroutine by the go statement, cleared by Pool.Put: a buffer cannot be handed to two handlers, nor be reused by the receive loop while a handler may still parse it) and handlers receive freshly parsed, non-aliased packets. "
        "From (1)-(3) freedom from data races on the guarded state and preservation of the data-structure invariants at every critical-section boundary in every schedule follow by the classical lock-invariant argument (DESIGN 2.9) - that meta-argument is on paper."),
  note=SRV_NOTE + " NOT claimed: equality of the reply set with a serial order at message granularity (the prefix plugin releases its mutex between the IA_PDs of one message); races inside logrus, fsnotify, sqlite, the codec; logger.GetLogger's double-checked locking (trusted contract; only called from package initialisers); for prefix/file the postconditions are sequential (the map state is not havocked at acquisition). The Go race detector is used only to replay one lock obligation, not as a deciding method.",
  technique="contract-based deductive verification: lock-ownership obligations (guarded-by), lock-invariant havoc at acquisition", ref="DESIGN.md section 7 (C16), 2.9"),
 "C18": dict(
  text=("Deductive proof on the real config package: no panic in parsePlugins, splitHostPort, getListenAddress, getPlugins, parseListen, parseConfig, expandLLMulticast, defaultListen for any configuration tree (the two `BUG` panics are unreachable after protoVersionCheck; string slicing at the zone separator is in bounds); "
        "getListenAddress returns an address or an error, with port 67/547 filled in when no port is written, the protocol's wildcard address when no address is written, the zone carried over, and an address of the protocol's family (wrong family, unparseable address or port: error); "
        "parsePlugins yields exactly one entry per list item, in order, every item names exactly one plugin and the entry carries that name."),
  note=COMMON_NOTE + " viper, cast, yaml.v3, net.SplitHostPort, strconv and net.Interfaces are outside /repo: uninterpreted and assumed panic-free - `no configuration TEXT makes loading panic` is therefore decided only for the code in /repo; Load itself (file lookup) and `listen`/`interface` conflict handling are covered for safety only.",
  technique="contract-based deductive verification: safety obligations, postconditions, loop invariant, keyed assertion", ref="DESIGN.md section 7 (C18)"),
})

NOT_YET = {}

def main():
    props = [json.loads(l) for l in open(os.path.join(V, "properties.jsonl"))]
    commits = subprocess.run(["git", "-C", "/repo", "log", "--format=%h %s"], capture_output=True, text=True).stdout.splitlines()
    hook_commits = [c.split()[0] for c in commits if "verif hooks" in c]
    na_path = os.path.join(V, "tools", "not_applicable.json")
    na = json.load(open(na_path)) if os.path.exists(na_path) else {}
    checks = []
    for p in props:
        pid = p["id"]
        if pid not in CHECKS:
            continue
        c = CHECKS[pid]
        checks.append({
            "property_id": pid,
            "quick_cmd": f"./check {pid} --tier quick",
            "thorough_cmd": f"./check {pid} --tier thorough",
            "evidence_file": f"/verif/evidence/{pid}.json",
            "replay_cmd_template": "./check --replay {path}",
            "engine": "govc",
            "level_claimed": {"category": "proof", "text": c["text"], "design_ref": c["ref"]},
            "level_note": c["note"],
            "technique": c["technique"],
        })
    not_applicable = []
    for p in props:
        pid = p["id"]
        if pid in CHECKS:
            continue
        not_applicable.append({"property_id": pid, "reason": na.get(pid, "check not built yet (construction in progress; DESIGN.md section 7 gives the plan for this property)")})
    m = {
        "version": 1,
        "setup_cmd": "cd /verif/govc && GOFLAGS=-mod=vendor GOPROXY=off GOSUMDB=off GOTOOLCHAIN=local go build -o ../bin/govc ./cmd/govc",
        "hooks": {
            "guard": "verif",
            "enable": "the guarded files are comment-only contract files (contracts_verif.go, //go:build verif) read by govc from /repo's working tree; `go build -tags verif ./...` compiles them to nothing",
            "baseline_off_cmd": "cd /repo && GOFLAGS=-mod=mod GOPROXY=off GOSUMDB=off go test -mod=mod -json -vet=off -count=1 -timeout 25m ./...",
            "source_commits": hook_commits,
            "add_only": True,
        },
        "engines": [{
            "name": "govc", "path": "/verif/govc", "serves_properties": sorted(CHECKS),
            "kind_free_text": "home-grown verification-condition generator over go/ssa (naive form) of the real /repo sources; contracts in //@ comments of /repo/**/contracts_verif.go; assumed dependency contracts in /verif/contracts/assumed; obligations discharged by z3 4.8.12 / z3 5.1.0 / cvc5 1.0.3; counterexamples replayed with go test -overlay",
        }],
        "checks": checks,
        "notes": "See DESIGN.md. ./check <ID> exits 0 (held), 1 (VIOLATION lines), or 2 (UNDECIDED: the contracts can no longer be applied to the tree; never on the unchanged tree).",
        "not_applicable": not_applicable,
    }
    json.dump(m, open(os.path.join(V, "MANIFEST.json"), "w"), indent=1)
    print("claimed:", sorted(CHECKS), "not claimed:", [x["property_id"] for x in not_applicable])

if __name__ == "__main__":
    main()
