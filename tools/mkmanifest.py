#!/usr/bin/env python3
"""Regenerates /verif/MANIFEST.json from the table below (claimed checks) and the
list of properties not (yet) claimed. Run after changing what is claimed."""
import json, subprocess, os

V = "/verif"
COMMON_NOTE = ("Trusted base: govc itself (home-grown VC generator over go/ssa naive form, its memory model and contract evaluator); "
               "the SMT solvers (z3 5.1.0, z3 4.8.12, cvc5 1.0.3; one `unsat` suffices in the quick tier, two agreeing back ends are required in the thorough tier); "
               "go/ssa's translation; gc/amd64 integer sizes (exact 64-bit vectors, not mathematical integers); every assumed contract on a dependency "
               "(/verif/contracts/assumed/*.spec) - each one used is listed by name in the evidence file of the run.")

CHECKS = {
 "C20": dict(
  text=("Deductive proof, for all inputs with no bound, of postconditions written from the property statement on the real functions "
        "allocators.Offset and allocators.AddPrefixes (128/192-bit bit-vector specifications: exact block index or overflow error; "
        "exact n-th block base or ErrOverflow, never a wrapped address), plus the contract-level lemma that the two are inverse. "
        "Both functions are loop-free, so full-domain symbolic inputs are a complete proof; the prefix length is case-split into "
        "its 129 values (a complete finite domain) when the symbolic query is not decided in 4 s. Safety (bounds, nil) and frame "
        "(arguments not modified) obligations are included."),
  note=COMMON_NOTE + " Assumed here: bytes.Compare orders equal-length big-endian byte strings like the integers they encode; errors.New returns a fresh non-nil error. "
       "Package initialisation (ErrOverflow/ErrNoAddrAvail non-nil, distinct, never reassigned) is itself verified (allocators.init) and a scan shows no other writer.",
  technique="contract-based deductive verification: WP/VC generation over go/ssa of the real code, SMT (bit-vector) discharge",
  ref="DESIGN.md section 7 (C20)"),
}

NOT_YET = {}

def main():
    props = [json.loads(l) for l in open(os.path.join(V, "properties.jsonl"))]
    commits = subprocess.run(["git", "-C", "/repo", "log", "--format=%h %s"], capture_output=True, text=True).stdout.splitlines()
    hook_commits = [c.split()[0] for c in commits if "verif hooks" in c]
    na_path = os.path.join(V, "tools", "not_applicable.json")
    na = json.load(open(na_path)) if os.path.exists(na_path) else {}
    checks = []
    for p in props:
        pid = p["id"]
        if pid not in CHECKS:
            continue
        c = CHECKS[pid]
        checks.append({
            "property_id": pid,
            "quick_cmd": f"./check {pid} --tier quick",
            "thorough_cmd": f"./check {pid} --tier thorough",
            "evidence_file": f"/verif/evidence/{pid}.json",
            "replay_cmd_template": "./check --replay {path}",
            "engine": "govc",
            "level_claimed": {"category": "proof", "text": c["text"], "design_ref": c["ref"]},
            "level_note": c["note"],
            "technique": c["technique"],
        })
    not_applicable = []
    for p in props:
        pid = p["id"]
        if pid in CHECKS:
            continue
        not_applicable.append({"property_id": pid, "reason": na.get(pid, "check not built yet (construction in progress; DESIGN.md section 7 gives the plan for this property)")})
    m = {
        "version": 1,
        "setup_cmd": "cd /verif/govc && GOFLAGS=-mod=vendor GOPROXY=off GOSUMDB=off GOTOOLCHAIN=local go build -o ../bin/govc ./cmd/govc",
        "hooks": {
            "guard": "verif",
            "enable": "the guarded files are comment-only contract files (contracts_verif.go, //go:build verif) read by govc from /repo's working tree; `go build -tags verif ./...` compiles them to nothing",
            "baseline_off_cmd": "cd /repo && GOFLAGS=-mod=mod GOPROXY=off GOSUMDB=off go test -mod=mod -json -vet=off -count=1 -timeout 25m ./...",
            "source_commits": hook_commits,
            "add_only": True,
        },
        "engines": [{
            "name": "govc", "path": "/verif/govc", "serves_properties": sorted(CHECKS),
            "kind_free_text": "home-grown verification-condition generator over go/ssa (naive form) of the real /repo sources; contracts in //@ comments of /repo/**/contracts_verif.go; assumed dependency contracts in /verif/contracts/assumed; obligations discharged by z3 4.8.12 / z3 5.1.0 / cvc5 1.0.3; counterexamples replayed with go test -overlay",
        }],
        "checks": checks,
        "notes": "See DESIGN.md. ./check <ID> exits 0 (held), 1 (VIOLATION lines), or 2 (UNDECIDED: the contracts can no longer be applied to the tree; never on the unchanged tree).",
        "not_applicable": not_applicable,
    }
    json.dump(m, open(os.path.join(V, "MANIFEST.json"), "w"), indent=1)
    print("claimed:", sorted(CHECKS), "not claimed:", [x["property_id"] for x in not_applicable])

if __name__ == "__main__":
    main()
