#!/bin/sh
# runs every claimed check in the thorough tier and prints exit code and wall time
cd /verif
for id in $(python3 -c "import json;print(' '.join(c['property_id'] for c in json.load(open('MANIFEST.json'))['checks']))"); do
  s=$(date +%s); ./check $id --tier thorough > /tmp/runallT_$id.log 2>&1; rc=$?; e=$(date +%s)
  echo "$id rc=$rc $((e-s))s $(grep -c '^VIOLATION' /tmp/runallT_$id.log) violations"
done
