package main

// Lexer and parser for contract expressions (Go-like expression syntax plus
// old(), ==>, <==>, forall/exists).

import (
	"fmt"
	"strings"
	"unicode"
)

type tokKind int

const (
	tEOF tokKind = iota
	tIdent
	tInt
	tString
	tOp
)

type stok struct {
	kind tokKind
	text string
	pos  int
}

func lexSpec(src string) ([]stok, error) {
	var toks []stok
	i := 0
	ops := []string{"<==>", "==>", "&^", "<<", ">>", "==", "!=", "<=", ">=", "&&", "||", "..", "+", "-", "*", "/", "%", "&", "|", "^", "<", ">", "!", "(", ")", "[", "]", "{", "}", ",", ".", ":", "#", "@", "=", "?"}
	for i < len(src) {
		c := rune(src[i])
		if unicode.IsSpace(c) {
			i++
			continue
		}
		if unicode.IsLetter(c) || c == '_' || c == '$' {
			j := i
			for j < len(src) && (unicode.IsLetter(rune(src[j])) || unicode.IsDigit(rune(src[j])) || src[j] == '_' || src[j] == '$') {
				j++
			}
			toks = append(toks, stok{tIdent, src[i:j], i})
			i = j
			continue
		}
		if unicode.IsDigit(c) {
			j := i
			if strings.HasPrefix(src[i:], "0x") || strings.HasPrefix(src[i:], "0X") {
				j += 2
				for j < len(src) && (unicode.IsDigit(rune(src[j])) || strings.ContainsRune("abcdefABCDEF_", rune(src[j]))) {
					j++
				}
			} else {
				for j < len(src) && (unicode.IsDigit(rune(src[j])) || src[j] == '_') {
					j++
				}
			}
			toks = append(toks, stok{tInt, strings.ReplaceAll(src[i:j], "_", ""), i})
			i = j
			continue
		}
		if c == '"' {
			j := i + 1
			for j < len(src) && src[j] != '"' {
				if src[j] == '\\' {
					j++
				}
				j++
			}
			if j >= len(src) {
				return nil, fmt.Errorf("unterminated string at %d", i)
			}
			toks = append(toks, stok{tString, src[i+1 : j], i})
			i = j + 1
			continue
		}
		matched := false
		for _, op := range ops {
			if strings.HasPrefix(src[i:], op) {
				toks = append(toks, stok{tOp, op, i})
				i += len(op)
				matched = true
				break
			}
		}
		if !matched {
			return nil, fmt.Errorf("unexpected character %q at %d in %q", c, i, src)
		}
	}
	toks = append(toks, stok{tEOF, "", len(src)})
	return toks, nil
}

// Spec AST
type SExpr interface{ specExpr() }

type (
	SIdent  struct{ Name string }
	SIntLit struct{ Text string }
	SStrLit struct{ Text string }
	SBinary struct {
		Op   string
		X, Y SExpr
	}
	SUnary struct {
		Op string
		X  SExpr
	}
	SCall struct {
		Fun  SExpr
		Args []SExpr
	}
	SSelector struct {
		X   SExpr
		Sel string
	}
	SIndex struct {
		X, I SExpr
	}
	SSliceE struct {
		X, Lo, Hi SExpr
	}
	SQuant struct {
		Forall bool
		Var    string
		Type   string // optional type text
		Lo, Hi SExpr  // optional range
		Body   SExpr
	}
	STypeAssert struct { // x.(T)
		X    SExpr
		Type string
	}
)

func (*SIdent) specExpr()      {}
func (*SIntLit) specExpr()     {}
func (*SStrLit) specExpr()     {}
func (*SBinary) specExpr()     {}
func (*SUnary) specExpr()      {}
func (*SCall) specExpr()       {}
func (*SSelector) specExpr()   {}
func (*SIndex) specExpr()      {}
func (*SSliceE) specExpr()     {}
func (*SQuant) specExpr()      {}
func (*STypeAssert) specExpr() {}

type specParser struct {
	toks []stok
	p    int
	src  string
}

func parseSpecExpr(src string) (e SExpr, err error) {
	toks, err := lexSpec(src)
	if err != nil {
		return nil, err
	}
	sp := &specParser{toks: toks, src: src}
	defer func() {
		if r := recover(); r != nil {
			if pe, ok := r.(parseErr); ok {
				err = fmt.Errorf("%s in %q", string(pe), src)
				return
			}
			panic(r)
		}
	}()
	e = sp.parseExpr()
	if sp.peek().kind != tEOF {
		sp.fail("unexpected %q", sp.peek().text)
	}
	return e, nil
}

type parseErr string

func (sp *specParser) fail(f string, args ...interface{}) {
	panic(parseErr(fmt.Sprintf(f, args...) + fmt.Sprintf(" at offset %d", sp.peek().pos)))
}
func (sp *specParser) peek() stok { return sp.toks[sp.p] }
func (sp *specParser) next() stok { t := sp.toks[sp.p]; sp.p++; return t }
func (sp *specParser) isOp(s string) bool {
	t := sp.peek()
	return t.kind == tOp && t.text == s
}
func (sp *specParser) accept(s string) bool {
	if sp.isOp(s) {
		sp.p++
		return true
	}
	return false
}
func (sp *specParser) expect(s string) {
	if !sp.accept(s) {
		sp.fail("expected %q, got %q", s, sp.peek().text)
	}
}

func (sp *specParser) parseExpr() SExpr {
	t := sp.peek()
	if t.kind == tIdent && (t.text == "forall" || t.text == "exists") {
		return sp.parseQuant()
	}
	return sp.parseIff()
}

func (sp *specParser) parseQuant() SExpr {
	q := &SQuant{Forall: sp.next().text == "forall"}
	v := sp.next()
	if v.kind != tIdent {
		sp.fail("quantifier variable expected")
	}
	q.Var = v.text
	// optional type: tokens until 'in' or ':'
	var ty []string
	for {
		t := sp.peek()
		if t.kind == tEOF {
			sp.fail("bad quantifier")
		}
		if t.kind == tIdent && t.text == "in" {
			break
		}
		if t.kind == tOp && t.text == ":" {
			break
		}
		ty = append(ty, sp.next().text)
	}
	q.Type = strings.Join(ty, "")
	if sp.peek().kind == tIdent && sp.peek().text == "in" {
		sp.next()
		q.Lo = sp.parseAdd()
		sp.expect("..")
		q.Hi = sp.parseAdd()
	}
	sp.expect(":")
	q.Body = sp.parseExpr()
	return q
}

func (sp *specParser) parseIff() SExpr {
	x := sp.parseImpl()
	for sp.accept("<==>") {
		y := sp.parseImpl()
		x = &SBinary{"<==>", x, y}
	}
	return x
}

func (sp *specParser) parseImpl() SExpr {
	x := sp.parseOr()
	if sp.accept("==>") {
		t := sp.peek()
		var y SExpr
		if t.kind == tIdent && (t.text == "forall" || t.text == "exists") {
			y = sp.parseQuant()
		} else {
			y = sp.parseImpl()
		}
		return &SBinary{"==>", x, y}
	}
	return x
}

func (sp *specParser) parseOr() SExpr {
	x := sp.parseAnd()
	for sp.accept("||") {
		x = &SBinary{"||", x, sp.parseAnd()}
	}
	return x
}

func (sp *specParser) parseAnd() SExpr {
	x := sp.parseCmp()
	for sp.accept("&&") {
		t := sp.peek()
		if t.kind == tIdent && (t.text == "forall" || t.text == "exists") {
			x = &SBinary{"&&", x, sp.parseQuant()}
			return x
		}
		x = &SBinary{"&&", x, sp.parseCmp()}
	}
	return x
}

func (sp *specParser) parseCmp() SExpr {
	x := sp.parseAdd()
	for _, op := range []string{"==", "!=", "<=", ">=", "<", ">"} {
		if sp.accept(op) {
			return &SBinary{op, x, sp.parseAdd()}
		}
	}
	return x
}

func (sp *specParser) parseAdd() SExpr {
	x := sp.parseMul()
	for {
		switch {
		case sp.accept("+"):
			x = &SBinary{"+", x, sp.parseMul()}
		case sp.accept("-"):
			x = &SBinary{"-", x, sp.parseMul()}
		case sp.accept("|"):
			x = &SBinary{"|", x, sp.parseMul()}
		case sp.accept("^"):
			x = &SBinary{"^", x, sp.parseMul()}
		default:
			return x
		}
	}
}

func (sp *specParser) parseMul() SExpr {
	x := sp.parseUnary()
	for {
		matched := false
		for _, op := range []string{"*", "/", "%", "<<", ">>", "&^", "&"} {
			if sp.isOp(op) {
				sp.next()
				x = &SBinary{op, x, sp.parseUnary()}
				matched = true
				break
			}
		}
		if !matched {
			return x
		}
	}
}

func (sp *specParser) parseUnary() SExpr {
	for _, op := range []string{"!", "-", "^", "*", "&"} {
		if sp.isOp(op) {
			sp.next()
			return &SUnary{op, sp.parseUnary()}
		}
	}
	return sp.parsePostfix()
}

func (sp *specParser) parsePostfix() SExpr {
	x := sp.parsePrimary()
	for {
		switch {
		case sp.accept("."):
			if sp.accept("(") {
				// type assertion: collect type text until matching ')'
				depth := 1
				var ty []string
				for depth > 0 {
					t := sp.next()
					if t.kind == tEOF {
						sp.fail("unterminated type assertion")
					}
					if t.kind == tOp && t.text == "(" {
						depth++
					}
					if t.kind == tOp && t.text == ")" {
						depth--
						if depth == 0 {
							break
						}
					}
					ty = append(ty, t.text)
				}
				x = &STypeAssert{x, strings.Join(ty, "")}
				continue
			}
			t := sp.next()
			if t.kind != tIdent {
				sp.fail("selector expected")
			}
			x = &SSelector{x, t.text}
		case sp.accept("["):
			if sp.accept(":") {
				var hi SExpr
				if !sp.isOp("]") {
					hi = sp.parseExpr()
				}
				sp.expect("]")
				x = &SSliceE{x, nil, hi}
				continue
			}
			i := sp.parseExpr()
			if sp.accept(":") {
				var hi SExpr
				if !sp.isOp("]") {
					hi = sp.parseExpr()
				}
				sp.expect("]")
				x = &SSliceE{x, i, hi}
				continue
			}
			sp.expect("]")
			x = &SIndex{x, i}
		case sp.accept("("):
			var args []SExpr
			if id, ok := x.(*SIdent); ok && id.Name == "typeis" {
				// typeis(expr, Type): the type is kept as raw text
				args = append(args, sp.parseExpr())
				sp.expect(",")
				depth := 1
				var ty []string
				for {
					t := sp.next()
					if t.kind == tEOF {
						sp.fail("unterminated typeis")
					}
					if t.kind == tOp && (t.text == "(" || t.text == "[") {
						depth++
					}
					if t.kind == tOp && t.text == "]" {
						depth--
					}
					if t.kind == tOp && t.text == ")" {
						depth--
						if depth == 0 {
							break
						}
					}
					ty = append(ty, t.text)
				}
				args = append(args, &SIdent{strings.Join(ty, "")})
				x = &SCall{x, args}
				continue
			}
			for !sp.isOp(")") {
				args = append(args, sp.parseExpr())
				if !sp.accept(",") {
					break
				}
			}
			sp.expect(")")
			x = &SCall{x, args}
		default:
			return x
		}
	}
}

func (sp *specParser) parsePrimary() SExpr {
	t := sp.next()
	switch t.kind {
	case tIdent:
		name := t.text
		// allow '#' suffix in identifiers such as #i1 handled below
		return &SIdent{name}
	case tInt:
		return &SIntLit{t.text}
	case tString:
		return &SStrLit{t.text}
	case tOp:
		if t.text == "(" {
			e := sp.parseExpr()
			sp.expect(")")
			return e
		}
		if t.text == "#" {
			n := sp.next()
			return &SIdent{"#" + n.text}
		}
	}
	sp.fail("unexpected token %q", t.text)
	return nil
}

func specString(e SExpr) string {
	switch e := e.(type) {
	case *SIdent:
		return e.Name
	case *SIntLit:
		return e.Text
	case *SStrLit:
		return fmt.Sprintf("%q", e.Text)
	case *SBinary:
		return "(" + specString(e.X) + " " + e.Op + " " + specString(e.Y) + ")"
	case *SUnary:
		return e.Op + specString(e.X)
	case *SCall:
		var as []string
		for _, a := range e.Args {
			as = append(as, specString(a))
		}
		return specString(e.Fun) + "(" + strings.Join(as, ", ") + ")"
	case *SSelector:
		return specString(e.X) + "." + e.Sel
	case *SIndex:
		return specString(e.X) + "[" + specString(e.I) + "]"
	case *SSliceE:
		lo, hi := "", ""
		if e.Lo != nil {
			lo = specString(e.Lo)
		}
		if e.Hi != nil {
			hi = specString(e.Hi)
		}
		return specString(e.X) + "[" + lo + ":" + hi + "]"
	case *SQuant:
		q := "exists"
		if e.Forall {
			q = "forall"
		}
		r := ""
		if e.Lo != nil {
			r = " in " + specString(e.Lo) + ".." + specString(e.Hi)
		}
		return q + " " + e.Var + " " + e.Type + r + ": " + specString(e.Body)
	case *STypeAssert:
		return specString(e.X) + ".(" + e.Type + ")"
	}
	return "?"
}
