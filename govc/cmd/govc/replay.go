package main

// Replay of counterexamples on the real code: the solver's model of a refuted
// obligation is turned into concrete inputs (JSON), and a committed Go test
// (/verif/replay/<unit>_test.go) is injected into the package with
// `go test -overlay` (nothing is written to /repo). The test calls the real
// function and checks the property with an independent oracle.

import (
	"bytes"
	"context"
	"encoding/json"
	"fmt"
	"go/types"
	"math/big"
	"os"
	"os/exec"
	"path/filepath"
	"sort"
	"strings"
	"time"
)

type ReplayResult struct {
	Path       string
	Reproduced bool
}

type replayFile struct {
	Property   string                 `json:"property"`
	Obligation string                 `json:"obligation"`
	Unit       string                 `json:"unit"`
	Kind       string                 `json:"kind"`
	At         string                 `json:"at"`
	Clause     string                 `json:"clause,omitempty"`
	Status     string                 `json:"solver_status"`
	Backends   map[string]string      `json:"backends"`
	SolverOut  string                 `json:"solver_output"`
	Inputs     map[string]interface{} `json:"inputs,omitempty"`
	Reproduced bool                   `json:"reproduced_on_real_code"`
	TestFile   string                 `json:"test_file,omitempty"`
	TestPkg    string                 `json:"test_pkg,omitempty"`
	TestOutput string                 `json:"test_output,omitempty"`
	Note       string                 `json:"note"`
}

func (p *Prog) replay(o *Oblig, dir, repo, verif, workdir string) ReplayResult {
	rf := replayFile{Obligation: o.Name, Unit: o.Func, Kind: o.Kind, Status: o.Result.Status, Backends: o.Result.All, SolverOut: truncate(o.Result.Output, 4000)}
	if o.Pos.IsValid() {
		rf.At = fmt.Sprintf("%s:%d", o.Pos.Filename, o.Pos.Line)
	}
	if o.Clause != nil {
		rf.Clause = o.Clause.Kind + " " + o.Clause.Src
	}
	name := fmt.Sprintf("%08x.json", hashStr(o.Name))
	path := filepath.Join(dir, name)
	reproduced := false
	if o.Result.Status == "sat" {
		reproduced = p.concretize(o, &rf, repo, verif, path, workdir)
	} else {
		rf.Note = "the solver gave no model (" + o.Result.Status + "): the obligation could not be discharged on this tree"
		// a committed scenario replay for the unit can still demonstrate the failure on the real code
		if e := o.Enc; e != nil && e.Fn != nil {
			if testSrc := findReplayTest(verif, e.Unit); testSrc != "" {
				inputs := map[string]interface{}{"obligation": o.Name, "unit": e.Unit, "model": "none"}
				rf.Inputs = inputs
				pkgDir := filepath.Dir(p.Fset.Position(e.Fn.Pos()).Filename)
				rel, _ := filepath.Rel(repo, pkgDir)
				ib, _ := json.MarshalIndent(inputs, "", " ")
				os.WriteFile(path+".input.json", ib, 0o644)
				outText, failed := runReplayTest(repo, rel, testSrc, path+".input.json")
				rf.TestFile, rf.TestPkg, rf.TestOutput = testSrc, "./"+rel, truncate(outText, 6000)
				if failed && strings.Contains(outText, "GOVC-REPRODUCED") {
					rf.Note = "no model from the solver (" + o.Result.Status + "); the committed scenario replay for this unit fails on the real code (see test_output)"
					reproduced = true
				}
			}
		}
	}
	rf.Reproduced = reproduced
	b, _ := json.MarshalIndent(rf, "", " ")
	os.WriteFile(path, b, 0o644)
	return ReplayResult{Path: path, Reproduced: reproduced}
}

func truncate(s string, n int) string {
	if len(s) > n {
		return s[:n] + "…"
	}
	return s
}

// ---- s-expression parsing of (get-value ...) output

type sx struct {
	atom string
	list []*sx
}

func parseSX(s string) []*sx {
	var stack [][]*sx
	var cur []*sx
	i := 0
	for i < len(s) {
		c := s[i]
		switch {
		case c == '(':
			stack = append(stack, cur)
			cur = nil
			i++
		case c == ')':
			n := &sx{list: cur}
			if n.list == nil {
				n.list = []*sx{}
			}
			cur = stack[len(stack)-1]
			stack = stack[:len(stack)-1]
			cur = append(cur, n)
			i++
		case c == ' ' || c == '\n' || c == '\t' || c == '\r':
			i++
		case c == '|':
			j := strings.IndexByte(s[i+1:], '|')
			cur = append(cur, &sx{atom: s[i : i+j+2]})
			i += j + 2
		case c == '"':
			j := strings.IndexByte(s[i+1:], '"')
			cur = append(cur, &sx{atom: s[i : i+j+2]})
			i += j + 2
		default:
			j := i
			for j < len(s) && !strings.ContainsRune("() \n\t\r", rune(s[j])) {
				j++
			}
			cur = append(cur, &sx{atom: s[i:j]})
			i = j
		}
		if len(stack) == 0 && c == ')' {
			// top-level form complete
		}
	}
	return cur
}

func (x *sx) String() string {
	if x.list == nil {
		return x.atom
	}
	var parts []string
	for _, c := range x.list {
		parts = append(parts, c.String())
	}
	return "(" + strings.Join(parts, " ") + ")"
}

// bvValue parses #x.., #b.., (_ bvN W) into a big.Int.
func bvValue(x *sx) (*big.Int, bool) {
	if x.list == nil {
		a := x.atom
		if strings.HasPrefix(a, "#x") {
			n, ok := new(big.Int).SetString(a[2:], 16)
			return n, ok
		}
		if strings.HasPrefix(a, "#b") {
			n, ok := new(big.Int).SetString(a[2:], 2)
			return n, ok
		}
		if n, ok := new(big.Int).SetString(a, 10); ok {
			return n, true
		}
		if a == "true" {
			return big.NewInt(1), true
		}
		if a == "false" {
			return big.NewInt(0), true
		}
		return nil, false
	}
	if len(x.list) == 3 && x.list[0].atom == "_" && strings.HasPrefix(x.list[1].atom, "bv") {
		n, ok := new(big.Int).SetString(x.list[1].atom[2:], 10)
		return n, ok
	}
	if len(x.list) == 2 && x.list[0].atom == "-" {
		if n, ok := bvValue(x.list[1]); ok {
			return n.Neg(n), true
		}
	}
	return nil, false
}

type modelQuery struct {
	terms []string
	keys  []string
}

func (m *modelQuery) add(key, term string) {
	m.keys = append(m.keys, key)
	m.terms = append(m.terms, term)
}

// sliceTerms requests len, cap, nil-ness and the first n bytes of a byte slice term in heap h.
func (m *modelQuery) sliceTerms(key string, s Val, h string, n int) {
	m.add(key+".len", SLen(s).T)
	m.add(key+".cap", SCap(s).T)
	m.add(key+".ref", LRef(SBase(s)).T)
	for i := 0; i < n; i++ {
		m.add(fmt.Sprintf("%s.b%d", key, i), Select(Val{h, ArraySort(SLoc, BVSort(8))}, ElemLoc(SBase(s), BV(64, uint64(i)))).T)
	}
}

func sliceFromModel(vals map[string]*big.Int, key string, n int) map[string]interface{} {
	ln := vals[key+".len"]
	out := map[string]interface{}{"nil": vals[key+".ref"] != nil && vals[key+".ref"].Sign() == 0}
	l := 0
	if ln != nil && ln.IsInt64() && ln.Int64() >= 0 && ln.Int64() <= int64(n) {
		l = int(ln.Int64())
	} else if ln != nil && ln.IsInt64() && ln.Int64() > int64(n) {
		l = n
	}
	out["len"] = l
	var bs []int
	for i := 0; i < l; i++ {
		b := vals[fmt.Sprintf("%s.b%d", key, i)]
		if b == nil {
			bs = append(bs, 0)
		} else {
			bs = append(bs, int(b.Int64()))
		}
	}
	out["bytes"] = bs
	return out
}

const replayBytes = 20

// concretize turns the model into inputs for the committed replay test of the unit.
func (p *Prog) concretize(o *Oblig, rf *replayFile, repo, verif, replayPath, workdir string) bool {
	e := o.Enc
	if e.Fn == nil {
		rf.Note = "refuted contract-level lemma: there is no code to replay; the model is in the solver output"
		rf.SolverOut = truncate(GetModel(o.Query(0), nil, filepath.Join(workdir, fmt.Sprintf("model-%x", hashStr(o.Name))), 20, o.Result.Backend), 6000)
		return false
	}
	testSrc := findReplayTest(verif, e.Unit)
	if testSrc == "" {
		rf.Note = "no replay test is committed for unit " + e.Unit + "; the model is attached in solver_output"
		rf.SolverOut = truncate(GetModel(o.Query(0), nil, filepath.Join(workdir, fmt.Sprintf("model-%x", hashStr(o.Name))), 20, o.Result.Backend), 6000)
		return false
	}
	// model query for the parameters (entry values)
	mq := &modelQuery{}
	type pinfo struct {
		name string
		t    types.Type
	}
	var params []pinfo
	factsFrom := len(e.facts)
	for _, prm := range e.Fn.Params {
		v := Val{"p_" + mangle(prm.Name()), p.W.SortOf(prm.Type())}
		params = append(params, pinfo{prm.Name(), prm.Type()})
		p.modelTermsFor(e, mq, prm.Name(), v, prm.Type(), 0)
	}
	// observers: named spec expressions over the entry state, listed in <test>.observe
	var observed []string
	if ob, err := os.ReadFile(strings.TrimSuffix(testSrc, "_test.go") + ".observe"); err == nil {
		pbind := map[string]TV{}
		for _, prm := range e.Fn.Params {
			pbind[prm.Name()] = TV{Val: Val{"p_" + mangle(prm.Name()), p.W.SortOf(prm.Type())}, Ty: prm.Type()}
		}
		var spec *SpecFile
		if e.FC != nil {
			spec = e.FC.Spec
		}
		for _, line := range strings.Split(string(ob), "\n") {
			line = strings.TrimSpace(line)
			if line == "" || strings.HasPrefix(line, "#") {
				continue
			}
			i := strings.Index(line, ":")
			if i < 0 {
				continue
			}
			sx, err := parseSpecExpr(strings.TrimSpace(line[i+1:]))
			if err != nil {
				continue
			}
			ec := &EvalCtx{e: e, st: e.entry, old: e.entry, bind: pbind, spec: spec}
			v, err := ec.eval(sx)
			if err != nil || v.Lit != nil {
				continue
			}
			k := "observe." + strings.TrimSpace(line[:i])
			mq.add(k, v.T)
			observed = append(observed, k)
		}
	}
	// the loads above may have materialised entry heaps that the obligation's own query does not declare
	q := o.queryAllDecls(factsFrom)
	out := GetModel(q, mq.terms, filepath.Join(workdir, fmt.Sprintf("model-%x", hashStr(o.Name))), 30, o.Result.Backend)
	if out == "" {
		rf.Note = "could not obtain a model for the parameters"
		return false
	}
	forms := parseSX(out)
	vals := map[string]*big.Int{}
	for _, f := range forms {
		if f.list == nil {
			continue
		}
		for i, pair := range f.list {
			if pair.list == nil || len(pair.list) != 2 || i >= len(mq.keys) {
				continue
			}
			if n, ok := bvValue(pair.list[1]); ok {
				vals[mq.keys[i]] = n
			}
		}
	}
	inputs := map[string]interface{}{}
	for _, pi := range params {
		inputs[pi.name] = p.inputFromModel(vals, pi.name, pi.t, 0)
	}
	for _, k := range observed {
		if v, ok := vals[k]; ok {
			inputs[strings.TrimPrefix(k, "observe.")] = v.String()
		}
	}
	rf.Inputs = inputs
	inputs["obligation"] = o.Name
	inputs["unit"] = e.Unit
	// run the committed replay test through an overlay
	pkgDir := filepath.Dir(p.Fset.Position(e.Fn.Pos()).Filename)
	rel, _ := filepath.Rel(repo, pkgDir)
	inPath := replayPath + ".input.json"
	ib, _ := json.MarshalIndent(inputs, "", " ")
	os.WriteFile(inPath, ib, 0o644)
	outText, failed := runReplayTest(repo, rel, testSrc, inPath)
	rf.TestFile = testSrc
	rf.TestPkg = "./" + rel
	rf.TestOutput = truncate(outText, 6000)
	if failed && strings.Contains(outText, "GOVC-REPRODUCED") {
		rf.Note = "the model was replayed on the real code and the property failed (see test_output)"
		return true
	}
	if strings.Contains(outText, "GOVC-PRECONDITION") {
		rf.Note = "the model does not satisfy the replay test's precondition check; not reproduced"
	} else {
		rf.Note = "the replay on the real code did not show the failure"
	}
	return false
}

func (p *Prog) modelTermsFor(e *Enc, mq *modelQuery, key string, v Val, t types.Type, depth int) {
	if depth > 4 {
		return
	}
	switch u := t.Underlying().(type) {
	case *types.Basic:
		if u.Info()&types.IsInteger != 0 || u.Info()&types.IsBoolean != 0 {
			mq.add(key, v.T)
		}
	case *types.Slice:
		if b, ok := u.Elem().Underlying().(*types.Basic); ok && b.Kind() == types.Uint8 {
			h := e.heap(e.entry, "H_bv8", ArraySort(SLoc, BVSort(8)))
			mq.sliceTerms(key, v, h.T, replayBytes)
		}
	case *types.Struct:
		si := p.W.StructOf(t)
		for _, f := range si.Fields {
			p.modelTermsFor(e, mq, key+"."+f.Name, Val{app(f.Sel, v.T), f.Sort}, f.Type, depth+1)
		}
	case *types.Pointer:
		mq.add(key+".nil", Eq(LRef(v), IntLit(0)).T)
		// ghost fields declared on this pointer type
		for _, gname := range sortedGhostFields(p.CS) {
			gf := p.CS.GhostFields[gname]
			gt, _, err := (&EvalCtx{e: e, spec: gf.Spec}).resolveType(gf.On)
			if err != nil || gt == nil || !types.Identical(gt, t) {
				continue
			}
			s, err := (&EvalCtx{e: e}).ghostFieldSort(gf)
			if err != nil {
				continue
			}
			h := e.heap(e.entry, "G_"+gname, ArraySort(SLoc, s))
			gv := Select(h, v)
			if s.IsArray() {
				ks, _ := s.ArrayParts()
				if ks.IsBV() {
					for i := 0; i < replayBits; i++ {
						mq.add(fmt.Sprintf("%s.%s.%d", key, gname, i), Select(gv, BV(ks.BVWidth(), uint64(i))).T)
					}
				}
			} else {
				mq.add(key+"."+gname, gv.T)
			}
		}
		if _, isStruct := u.Elem().Underlying().(*types.Struct); isStruct {
			if nt, ok := u.Elem().(*types.Named); ok && nt.Obj().Pkg() != nil && strings.HasPrefix(nt.Obj().Pkg().Path(), p.ModPath) {
				sv := e.load(e.entry, v, u.Elem())
				p.modelTermsFor(e, mq, key, sv, u.Elem(), depth+1)
			}
		}
	}
}

const replayBits = 128

func sortedGhostFields(cs *Contracts) []string {
	var ks []string
	for k := range cs.GhostFields {
		ks = append(ks, k)
	}
	sort.Strings(ks)
	return ks
}

func (p *Prog) inputFromModel(vals map[string]*big.Int, key string, t types.Type, depth int) interface{} {
	if depth > 4 {
		return nil
	}
	switch u := t.Underlying().(type) {
	case *types.Basic:
		if v, ok := vals[key]; ok {
			if u.Info()&types.IsInteger != 0 {
				n, signed := intWidth(u)
				x := new(big.Int).Set(v)
				if signed && x.Bit(n-1) == 1 {
					x.Sub(x, new(big.Int).Lsh(big.NewInt(1), uint(n)))
				}
				return x.String()
			}
			return v.Sign() != 0
		}
	case *types.Slice:
		return sliceFromModel(vals, key, replayBytes)
	case *types.Struct:
		si := p.W.StructOf(t)
		out := map[string]interface{}{}
		for _, f := range si.Fields {
			if x := p.inputFromModel(vals, key+"."+f.Name, f.Type, depth+1); x != nil {
				out[f.Name] = x
			}
		}
		return out
	case *types.Pointer:
		out := map[string]interface{}{}
		if v, ok := vals[key+".nil"]; ok {
			out["nil"] = v.Sign() != 0
		}
		for _, gname := range sortedGhostFields(p.CS) {
			if v, ok := vals[key+"."+gname]; ok {
				out[gname] = v.String()
			}
			if _, ok := vals[fmt.Sprintf("%s.%s.0", key, gname)]; ok {
				var bs []bool
				for i := 0; i < replayBits; i++ {
					b := vals[fmt.Sprintf("%s.%s.%d", key, gname, i)]
					bs = append(bs, b != nil && b.Sign() != 0)
				}
				out[gname] = bs
			}
		}
		if _, isStruct := u.Elem().Underlying().(*types.Struct); isStruct {
			if nt, ok := u.Elem().(*types.Named); ok && nt.Obj().Pkg() != nil && strings.HasPrefix(nt.Obj().Pkg().Path(), p.ModPath) {
				if m, ok := p.inputFromModel(vals, key, u.Elem(), depth+1).(map[string]interface{}); ok {
					for k, v := range m {
						out[k] = v
					}
				}
			}
		}
		return out
	}
	return nil
}

// runReplayTest injects testSrc into the package at rel (relative to repo) and runs it.
func runReplayTest(repo, rel, testSrc, inputPath string) (string, bool) {
	tmp, err := os.MkdirTemp("", "govc-replay-")
	if err != nil {
		return err.Error(), false
	}
	defer os.RemoveAll(tmp)
	target := filepath.Join(repo, rel, "govc_replay_test.go")
	ov := map[string]map[string]string{"Replace": {target: testSrc}}
	ob, _ := json.Marshal(ov)
	ovPath := filepath.Join(tmp, "overlay.json")
	os.WriteFile(ovPath, ob, 0o644)
	ctx, cancel := context.WithTimeout(context.Background(), 180*time.Second)
	defer cancel()
	args := []string{"test", "-overlay", ovPath, "-vet=off", "-count=1", "-timeout", "60s", "-run", "TestGovcReplay"}
	if src, err := os.ReadFile(testSrc); err == nil && strings.Contains(string(src), "govc:race") {
		args = append(args, "-race") // schedule-dependent replays run under the race detector
	}
	args = append(args, "./"+rel)
	cmd := exec.CommandContext(ctx, "go", args...)
	cmd.Dir = repo
	cmd.Env = append(os.Environ(), "GOFLAGS=-mod=mod", "GOPROXY=off", "GOSUMDB=off", "GOTOOLCHAIN=local", "GOVC_REPLAY_INPUT="+inputPath)
	var out bytes.Buffer
	cmd.Stdout = &out
	cmd.Stderr = &out
	err = cmd.Run()
	return out.String(), err != nil
}

// cmdReplay re-executes a recorded replay file.
func cmdReplay(path, repo string) int {
	b, err := os.ReadFile(path)
	if err != nil {
		fmt.Fprintln(os.Stderr, err)
		return 2
	}
	var rf replayFile
	if err := json.Unmarshal(b, &rf); err != nil {
		fmt.Fprintln(os.Stderr, err)
		return 2
	}
	fmt.Printf("obligation: %s\nat: %s\nclause: %s\nsolver: %s\n", rf.Obligation, rf.At, rf.Clause, rf.Status)
	if rf.TestFile == "" {
		fmt.Println("no executable replay recorded:", rf.Note)
		return 1
	}
	out, failed := runReplayTest(repo, strings.TrimPrefix(rf.TestPkg, "./"), rf.TestFile, path+".input.json")
	fmt.Println(out)
	if failed && strings.Contains(out, "GOVC-REPRODUCED") {
		fmt.Println("REPRODUCED")
		return 1
	}
	fmt.Println("not reproduced")
	return 0
}

// findReplayTest looks for /verif/replay/<unit>_test.go, then <pkg>.<Type>_test.go, then <pkg>_test.go.
func findReplayTest(verif, unit string) string {
	clean := strings.NewReplacer("(", "", ")", "", "*", "").Replace(unit)
	cands := []string{clean}
	if i := strings.LastIndex(clean, "."); i > 0 {
		cands = append(cands, clean[:i])
		if j := strings.Index(clean, "."); j > 0 && j < i {
			cands = append(cands, clean[:j])
		}
	}
	for _, c := range cands {
		f := filepath.Join(verif, "replay", c+"_test.go")
		if _, err := os.Stat(f); err == nil {
			return f
		}
	}
	return ""
}
