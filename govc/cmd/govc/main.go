package main

import (
	"flag"
	"fmt"
	"go/types"
	"os"
	"sort"
	"strings"

	"golang.org/x/tools/go/packages"
	"golang.org/x/tools/go/ssa"
	"golang.org/x/tools/go/ssa/ssautil"
)

func loadProgram(repo, verifDir string) (*Prog, error) {
	cfg := &packages.Config{
		Mode: packages.NeedName | packages.NeedFiles | packages.NeedCompiledGoFiles | packages.NeedImports |
			packages.NeedTypes | packages.NeedTypesSizes | packages.NeedSyntax | packages.NeedTypesInfo | packages.NeedDeps | packages.NeedModule,
		Dir: repo,
		Env: append(os.Environ(), "GOFLAGS=-mod=mod", "GOPROXY=off", "GOSUMDB=off", "GOTOOLCHAIN=local"),
	}
	pkgs, err := packages.Load(cfg, "./...")
	if err != nil {
		return nil, err
	}
	var bad []string
	packages.Visit(pkgs, nil, func(p *packages.Package) {
		for _, e := range p.Errors {
			if strings.HasPrefix(p.PkgPath, "github.com/coredhcp/coredhcp") {
				bad = append(bad, e.Error())
			}
		}
	})
	if len(bad) > 0 {
		return nil, fmt.Errorf("repository does not type-check:\n%s", strings.Join(bad, "\n"))
	}
	prog, _ := ssautil.Packages(pkgs, ssa.NaiveForm|ssa.GlobalDebug)
	prog.Build()
	p := &Prog{W: NewWorld(), CS: NewContracts(), SSA: prog, Pkgs: map[string]*packages.Package{}, funcs: map[string]*ssa.Function{}}
	packages.Visit(pkgs, nil, func(pk *packages.Package) {
		p.Pkgs[pk.PkgPath] = pk
		if p.Fset == nil {
			p.Fset = pk.Fset
		}
	})
	p.ModPath = "github.com/coredhcp/coredhcp"
	for _, pk := range pkgs {
		if pk.Module != nil && pk.Module.Main {
			p.ModPath = pk.Module.Path
		}
	}
	for _, sp := range prog.AllPackages() {
		if !strings.HasPrefix(sp.Pkg.Path(), p.ModPath) {
			continue
		}
		for _, m := range sp.Members {
			switch m := m.(type) {
			case *ssa.Function:
				p.addFunc(m)
			case *ssa.Type:
				mset := prog.MethodSets.MethodSet(m.Type())
				for i := 0; i < mset.Len(); i++ {
					if f := prog.MethodValue(mset.At(i)); f != nil && f.Synthetic == "" {
						p.addFunc(f)
					}
				}
				pm := prog.MethodSets.MethodSet(types.NewPointer(m.Type()))
				for i := 0; i < pm.Len(); i++ {
					if f := prog.MethodValue(pm.At(i)); f != nil && f.Synthetic == "" {
						p.addFunc(f)
					}
				}
			}
		}
	}
	if err := p.CS.LoadAll(repo, p.ModPath, verifDir+"/contracts/assumed"); err != nil {
		return nil, err
	}
	// resolve package aliases in `implements` clauses through the imports of the contract's package
	for _, fc := range p.CS.Funcs {
		for i, im := range fc.Implements {
			if _, ok := p.CS.Types[im]; ok {
				continue
			}
			j := strings.LastIndex(im, ".")
			if j < 0 {
				continue
			}
			alias, name := im[:j], im[j+1:]
			if k := strings.LastIndex(alias, "."); k >= 0 && strings.HasPrefix(alias, fc.Spec.PkgPath) {
				alias = alias[len(fc.Spec.PkgPath)+1:] // expandQualified prefixed the package path
			}
			if pk, ok := p.Pkgs[fc.Spec.PkgPath]; ok {
				for _, imp := range pk.Types.Imports() {
					if imp.Name() == alias {
						fc.Implements[i] = imp.Path() + "." + name
					}
				}
			}
		}
	}
	resolveAlias := func(fc *FuncContract, im string) string {
		j := strings.LastIndex(im, ".")
		if j < 0 {
			return im
		}
		alias, name := im[:j], im[j+1:]
		if _, ok := p.Pkgs[alias]; ok {
			return im
		}
		if k := strings.LastIndex(alias, "."); k >= 0 && strings.HasPrefix(alias, fc.Spec.PkgPath) {
			alias = alias[len(fc.Spec.PkgPath)+1:]
		}
		if pk, ok := p.Pkgs[fc.Spec.PkgPath]; ok {
			for _, imp := range pk.Types.Imports() {
				if imp.Name() == alias {
					return imp.Path() + "." + name
				}
			}
		}
		return im
	}
	for _, fc := range p.CS.Funcs {
		for i, im := range fc.Refines {
			fc.Refines[i] = resolveAlias(fc, im)
		}
		if fc.Constructs != "" {
			fc.Constructs = resolveAlias(fc, fc.Constructs)
		}
	}
	return p, nil
}

func (p *Prog) addFunc(f *ssa.Function) {
	p.funcs[funcKey(f)] = f
	for _, af := range f.AnonFuncs {
		p.addFunc(af)
	}
}

func main() {
	if len(os.Args) < 2 {
		fmt.Fprintln(os.Stderr, "usage: govc check|dump|units ...")
		os.Exit(2)
	}
	switch os.Args[1] {
	case "dump":
		fs := flag.NewFlagSet("dump", flag.ExitOnError)
		repo := fs.String("repo", "/repo", "")
		fs.Parse(os.Args[2:])
		p, err := loadProgram(*repo, "/verif")
		if err != nil {
			fmt.Fprintln(os.Stderr, err)
			os.Exit(2)
		}
		var keys []string
		for k := range p.funcs {
			keys = append(keys, k)
		}
		sort.Strings(keys)
		for _, k := range keys {
			match := len(fs.Args()) == 0
			for _, a := range fs.Args() {
				if strings.Contains(k, a) {
					match = true
				}
			}
			if match {
				fmt.Println("### key:", k)
				p.funcs[k].WriteTo(os.Stdout)
			}
		}
	case "check":
		os.Exit(cmdCheck(os.Args[2:]))
	case "replay":
		if len(os.Args) < 3 {
			fmt.Fprintln(os.Stderr, "usage: govc replay <file>")
			os.Exit(2)
		}
		os.Exit(cmdReplay(os.Args[2], "/repo"))
	default:
		fmt.Fprintln(os.Stderr, "unknown command", os.Args[1])
		os.Exit(2)
	}
}
