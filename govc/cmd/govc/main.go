package main

import (
	"fmt"
	"os"

	"golang.org/x/tools/go/packages"
	"golang.org/x/tools/go/ssa"
	"golang.org/x/tools/go/ssa/ssautil"
)

func main() {
	cfg := &packages.Config{Mode: packages.LoadAllSyntax, Dir: "/repo", Env: append(os.Environ(), "GOFLAGS=-mod=mod", "GOPROXY=off", "GOSUMDB=off", "GOTOOLCHAIN=local")}
	pkgs, err := packages.Load(cfg, os.Args[1])
	if err != nil {
		panic(err)
	}
	prog, spkgs := ssautil.AllPackages(pkgs, ssa.NaiveForm|ssa.GlobalDebug)
	prog.Build()
	for _, p := range spkgs {
		if p == nil {
			continue
		}
		for _, m := range p.Members {
			if f, ok := m.(*ssa.Function); ok {
				f.WriteTo(os.Stdout)
				for _, af := range f.AnonFuncs {
					af.WriteTo(os.Stdout)
				}
			}
		}
	}
	fmt.Println("ok")
}
