package main

// Map model: a map value is an integer reference; contents live in ghost heaps
// MD_<K> (domain), MV_<K>_<V> (values), ML (length).

import (
	"fmt"
	"go/types"

	"golang.org/x/tools/go/ssa"
)

func (e *Enc) mapHeaps(st *State, mt *types.Map) (dn string, d Val, vn string, v Val, err error) {
	w := e.P.W
	ks := w.SortOf(mt.Key())
	if _, isStruct := mt.Elem().Underlying().(*types.Struct); isStruct {
		return "", Val{}, "", Val{}, fmt.Errorf("maps with struct values are outside the supported subset")
	}
	vs := w.SortOf(mt.Elem())
	dn = "MD_" + mangle(string(ks))
	vn = "MV_" + mangle(string(ks)) + "_" + mangle(string(vs))
	d = e.heap(st, dn, ArraySort(SInt, ArraySort(ks, SBool)))
	v = e.heap(st, vn, ArraySort(SInt, ArraySort(ks, vs)))
	return
}

func (e *Enc) mapLen(st *State, m Val) Val {
	l := e.heap(st, "ML", ArraySort(SInt, BVSort(64)))
	r := Select(l, m)
	return Ite(Eq(m, IntLit(0)), BV(64, 0), r)
}

func (e *Enc) mapGet(st *State, m, k Val, mt *types.Map) (Val, Val) {
	_, d, _, v, err := e.mapHeaps(st, mt)
	if err != nil {
		e.failed = err
		return e.P.W.ZeroOf(mt.Elem()), False
	}
	ok := And(Not(Eq(m, IntLit(0))), Select(Select(d, m), k))
	val := Ite(ok, Select(Select(v, m), k), e.P.W.ZeroOf(mt.Elem()))
	return val, ok
}

func (e *Enc) lookup(fr *Frame, st *State, in *ssa.Lookup) {
	x := e.val(fr, st, in.X)
	k := e.val(fr, st, in.Index)
	switch t := in.X.Type().Underlying().(type) {
	case *types.Map:
		v, ok := e.mapGet(st, x, k, t)
		v = e.name(in.Name(), v)
		e.assumeValid(st, v, t.Elem())
		if in.CommaOk {
			fr.tuples[in] = []Val{v, e.name("ok", ok)}
		} else {
			fr.vals[in] = v
		}
	case *types.Basic:
		idx := e.toInt64(k, in.Index.Type())
		e.check(st, "safety", e.siteLabel(fr, "index", in.Pos()), And(BVCmp("bvsge", idx, BV(64, 0)), BVCmp("bvslt", idx, StrLen(x))), in.Pos())
		f := e.P.W.Uninterp("str_at", []Sort{SStr, BVSort(64)}, BVSort(8))
		fr.vals[in] = Val{app(f, x.T, idx.T), BVSort(8)}
	default:
		e.failed = fmt.Errorf("%s: lookup on %s", e.Unit, in.X.Type())
	}
}

func (e *Enc) mapUpdate(fr *Frame, st *State, in *ssa.MapUpdate) {
	m := e.val(fr, st, in.Map)
	k := e.val(fr, st, in.Key)
	v := e.val(fr, st, in.Value)
	mt := in.Map.Type().Underlying().(*types.Map)
	e.check(st, "safety", e.siteLabel(fr, "nil-map-store", in.Pos()), Not(Eq(m, IntLit(0))), in.Pos())
	e.guardAccess(fr, st, mapOrigin(in.Map), true, in.Pos())
	dn, d, vn, vh, err := e.mapHeaps(st, mt)
	if err != nil {
		e.failed = err
		return
	}
	had := Select(Select(d, m), k)
	nd := e.fresh(dn, d.S)
	e.fact(Eq(nd, Store(d, m, Store(Select(d, m), k, True))))
	nv := e.fresh(vn, vh.S)
	e.fact(Eq(nv, Store(vh, m, Store(Select(vh, m), k, v))))
	l := e.heap(st, "ML", ArraySort(SInt, BVSort(64)))
	nl := e.fresh("ML", l.S)
	e.fact(Eq(nl, Store(l, m, Ite(had, Select(l, m), BVOp("bvadd", Select(l, m), BV(64, 1))))))
	st.heaps[dn] = nd
	st.heaps[vn] = nv
	st.heaps["ML"] = nl
}

// mapOrigin finds the address the map value was loaded from (for guard checks).
func mapOrigin(v ssa.Value) ssa.Value {
	if u, ok := v.(*ssa.UnOp); ok {
		return u.X
	}
	return v
}

func (e *Enc) mapDelete(st *State, m, k Val, mt *types.Map) {
	dn, d, _, _, err := e.mapHeaps(st, mt)
	if err != nil {
		e.failed = err
		return
	}
	had := And(Not(Eq(m, IntLit(0))), Select(Select(d, m), k))
	nd := e.fresh(dn, d.S)
	e.fact(Eq(nd, Ite(Eq(m, IntLit(0)), d, Store(d, m, Store(Select(d, m), k, False)))))
	l := e.heap(st, "ML", ArraySort(SInt, BVSort(64)))
	nl := e.fresh("ML", l.S)
	e.fact(Eq(nl, Ite(had, Store(l, m, BVOp("bvsub", Select(l, m), BV(64, 1))), l)))
	st.heaps[dn] = nd
	st.heaps["ML"] = nl
}

func (e *Enc) makeMap(fr *Frame, st *State, in *ssa.MakeMap) {
	mt := in.Type().Underlying().(*types.Map)
	r := st.next
	nn := e.fresh("next", SInt)
	e.fact(Eq(nn, Val{app("+", st.next.T, "1"), SInt}))
	st.next = nn
	dn, d, _, _, err := e.mapHeaps(st, mt)
	if err != nil {
		e.failed = err
		return
	}
	ks := e.P.W.SortOf(mt.Key())
	empty := Val{fmt.Sprintf("((as const %s) false)", ArraySort(ks, SBool)), ArraySort(ks, SBool)}
	nd := e.fresh(dn, d.S)
	e.fact(Eq(nd, Store(d, r, empty)))
	st.heaps[dn] = nd
	l := e.heap(st, "ML", ArraySort(SInt, BVSort(64)))
	nl := e.fresh("ML", l.S)
	e.fact(Eq(nl, Store(l, r, BV(64, 0))))
	st.heaps["ML"] = nl
	fr.vals[in] = r
}

func (e *Enc) rangeInstr(fr *Frame, st *State, in *ssa.Range) {
	switch t := in.X.Type().Underlying().(type) {
	case *types.Map:
		ks := e.P.W.SortOf(t.Key())
		empty := Val{fmt.Sprintf("((as const %s) false)", ArraySort(ks, SBool)), ArraySort(ks, SBool)}
		st.iters[in] = empty
		if st.iterN == nil {
			st.iterN = map[ssa.Value]Val{}
		}
		st.iterN[in] = BV(64, 0)
		fr.vals[in] = e.val(fr, st, in.X) // the iterator remembers the map reference
	default:
		e.abstractions["range over string (iteration abstracted)"] = true
		st.iters[in] = BV(64, 0)
		fr.vals[in] = e.val(fr, st, in.X)
	}
}

func (e *Enc) nextInstr(fr *Frame, st *State, in *ssa.Next) {
	rng := in.Iter.(*ssa.Range)
	w := e.P.W
	if in.IsString {
		ok := e.fresh("nxok", SBool)
		fr.tuples[in] = []Val{ok, e.fresh("nxi", BVSort(64)), e.fresh("nxr", BVSort(32))}
		return
	}
	mt := rng.X.Type().Underlying().(*types.Map)
	m := fr.vals[rng]
	visited, have := st.iters[rng]
	ks := w.SortOf(mt.Key())
	if !have {
		visited = e.fresh("visited", ArraySort(ks, SBool))
	}
	_, d, _, vh, err := e.mapHeaps(st, mt)
	if err != nil {
		e.failed = err
		return
	}
	ok := e.fresh("nxok", SBool)
	k := e.fresh("nxk", ks)
	dom := Select(d, m)
	inDom := And(Not(Eq(m, IntLit(0))), Select(dom, k))
	e.assume(st, Implies(ok, And(inDom, Not(Select(visited, k)))))
	kk := Val{"k!", ks}
	if !e.iterUnstable[rng] {
		// (an entry added during the iteration may or may not be produced: no such claim then)
		e.assume(st, Implies(Not(ok), Forall([]Val{kk}, Implies(And(Not(Eq(m, IntLit(0))), Select(dom, kk)), Select(visited, kk)))))
	}
	v := e.name("nxv", Select(Select(vh, m), k))
	e.assumeValid(st, k, mt.Key())
	e.assumeValid(st, v, mt.Elem())
	st.iters[rng] = e.name("visited", Ite(ok, Store(visited, k, True), visited))
	// a range over a map delivers each key exactly once: when it ends, the count is the map's length
	cnt, haveN := st.iterN[rng]
	if !haveN {
		cnt = e.fresh("itn", BVSort(64))
	}
	if !e.iterUnstable[rng] {
		e.assume(st, Implies(Not(ok), Eq(cnt, e.mapLen(st, m))))
		e.assume(st, Implies(ok, BVCmp("bvslt", cnt, e.mapLen(st, m))))
	}
	if st.iterN == nil {
		st.iterN = map[ssa.Value]Val{}
	}
	st.iterN[rng] = e.name("itn", Ite(ok, BVOp("bvadd", cnt, BV(64, 1)), cnt))
	fr.lastIter = rng
	fr.tuples[in] = []Val{ok, k, v}
}
