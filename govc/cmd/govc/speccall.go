package main

// Calls inside contract expressions: builtins, ghost fields, spec functions.

import (
	"fmt"
	"go/types"
	"strings"
)

func (c *EvalCtx) evalArgs(args []SExpr) ([]TV, error) {
	var out []TV
	for _, a := range args {
		v, err := c.eval(a)
		if err != nil {
			return nil, err
		}
		out = append(out, v)
	}
	return out, nil
}

func (c *EvalCtx) litInt(x SExpr) (int, error) {
	v, err := c.eval(x)
	if err != nil {
		return 0, err
	}
	if v.Lit == nil {
		return 0, fmt.Errorf("integer literal expected, got %s", specString(x))
	}
	return int(v.Lit.Int64()), nil
}

func (c *EvalCtx) bytesBE(s Val, off, n int) Val {
	var parts []Val
	for i := 0; i < n; i++ {
		parts = append(parts, c.e.load(c.st, ElemLoc(SBase(s), BV(64, uint64(off+i))), types.Typ[types.Uint8]))
	}
	return Concat(parts...)
}

func (c *EvalCtx) evalCall(x *SCall) (TV, error) {
	name := ""
	if id, ok := x.Fun.(*SIdent); ok {
		name = id.Name
	}
	boolT := types.Typ[types.Bool]
	switch name {
	case "old":
		if len(x.Args) != 1 {
			return TV{}, fmt.Errorf("old takes one argument")
		}
		if c.old == nil {
			return TV{}, fmt.Errorf("old() used where there is no pre-state")
		}
		eff := c.old
		if len(c.st.oldOv) > 0 {
			eff = c.old.clone()
			for k, v := range c.st.oldOv {
				eff.heaps[k] = v
			}
		}
		oc := c.inState(eff)
		return oc.eval(x.Args[0])
	case "len", "cap":
		v, err := c.eval(x.Args[0])
		if err != nil {
			return TV{}, err
		}
		it := types.Typ[types.Int]
		switch {
		case v.S == SSlice && name == "len":
			return TV{Val: SLen(v.Val), Ty: it}, nil
		case v.S == SSlice:
			return TV{Val: SCap(v.Val), Ty: it}, nil
		case v.S == SStr:
			return TV{Val: StrLen(v.Val), Ty: it}, nil
		case v.Ty != nil && isMap(v.Ty):
			return TV{Val: c.e.mapLen(c.st, v.Val), Ty: it}, nil
		}
		return TV{}, fmt.Errorf("len of sort %s", v.S)
	case "u128", "u64be", "u32be", "u16be":
		v, err := c.eval(x.Args[0])
		if err != nil {
			return TV{}, err
		}
		if v.S != SSlice {
			return TV{}, fmt.Errorf("%s needs a byte slice", name)
		}
		n := map[string]int{"u128": 16, "u64be": 8, "u32be": 4, "u16be": 2}[name]
		off := 0
		if len(x.Args) > 1 {
			off, err = c.litInt(x.Args[1])
			if err != nil {
				return TV{}, err
			}
		}
		return TV{Val: c.bytesBE(v.Val, off, n), Unsigned: true}, nil
	case "zext", "sext", "trunc":
		n, err := c.litInt(x.Args[0])
		if err != nil {
			return TV{}, err
		}
		v, err := c.eval(x.Args[1])
		if err != nil {
			return TV{}, err
		}
		if v.Lit != nil {
			return TV{Val: BVBig(n, v.Lit), Unsigned: true}, nil
		}
		if !v.S.IsBV() {
			return TV{}, fmt.Errorf("%s of non-bitvector", name)
		}
		switch name {
		case "zext":
			return TV{Val: ZExt(n, v.Val), Unsigned: true}, nil
		case "sext":
			return TV{Val: SExt(n, v.Val), Unsigned: true}, nil
		default:
			return TV{Val: Extract(n-1, 0, v.Val), Unsigned: true}, nil
		}
	case "bv":
		n, err := c.litInt(x.Args[0])
		if err != nil {
			return TV{}, err
		}
		v, err := c.eval(x.Args[1])
		if err != nil {
			return TV{}, err
		}
		if v.Lit == nil {
			return TV{}, fmt.Errorf("bv needs a literal")
		}
		return TV{Val: BVBig(n, v.Lit), Unsigned: true}, nil
	case "ite":
		cnd, err := c.evalBool(x.Args[0])
		if err != nil {
			return TV{}, err
		}
		a, err := c.eval(x.Args[1])
		if err != nil {
			return TV{}, err
		}
		b, err := c.eval(x.Args[2])
		if err != nil {
			return TV{}, err
		}
		asTree := func(v TV) *litTree {
			if v.Tree != nil {
				return v.Tree
			}
			if v.Lit != nil {
				return &litTree{leaf: v.Lit}
			}
			return nil
		}
		if ta, tb := asTree(a), asTree(b); ta != nil && tb != nil {
			return TV{Tree: &litTree{cond: cnd, a: ta, b: tb}}, nil
		}
		if a, err = c.coerce(a, b); err != nil {
			return TV{}, err
		}
		if b, err = c.coerce(b, a); err != nil {
			return TV{}, err
		}
		if a.S != b.S {
			return TV{}, fmt.Errorf("ite branches of sorts %s and %s", a.S, b.S)
		}
		return TV{Val: Ite(cnd, a.Val, b.Val), Ty: a.Ty, Unsigned: a.Unsigned}, nil
	case "has":
		m, err := c.eval(x.Args[0])
		if err != nil {
			return TV{}, err
		}
		if m.Ty == nil || !isMap(m.Ty) {
			return TV{}, fmt.Errorf("has() needs a map")
		}
		mt := m.Ty.Underlying().(*types.Map)
		k, err := c.eval(x.Args[1])
		if err != nil {
			return TV{}, err
		}
		k, err = c.coerce(k, TV{Val: Val{"", c.W().SortOf(mt.Key())}})
		if err != nil {
			return TV{}, err
		}
		_, ok := c.e.mapGet(c.st, m.Val, k.Val, mt)
		return TV{Val: ok, Ty: boolT}, nil
	case "typeis":
		v, err := c.eval(x.Args[0])
		if err != nil {
			return TV{}, err
		}
		t, _, err := c.resolveType(specString(x.Args[1]))
		if err != nil {
			return TV{}, err
		}
		return TV{Val: Eq(ITyp(v.Val), IntLit(int64(c.W().TypeTag(t)))), Ty: boolT}, nil
	case "ref":
		v, err := c.eval(x.Args[0])
		if err != nil {
			return TV{}, err
		}
		switch v.S {
		case SLoc:
			return TV{Val: LRef(v.Val)}, nil
		case SSlice:
			return TV{Val: LRef(SBase(v.Val))}, nil
		case SIface:
			return TV{Val: LRef(IVal(v.Val))}, nil
		case SInt:
			return TV{Val: v.Val}, nil
		}
		return TV{}, fmt.Errorf("ref of sort %s", v.S)
	case "fresh":
		// allocated since the pre-state
		r, err := c.evalCall(&SCall{Fun: &SIdent{"ref"}, Args: x.Args})
		if err != nil {
			return TV{}, err
		}
		if c.old == nil {
			return TV{}, fmt.Errorf("fresh() needs a pre-state")
		}
		return TV{Val: And(Val{app("<=", c.old.next.T, r.T), SBool}, Val{app("<", r.T, c.st.next.T), SBool}), Ty: boolT}, nil
	case "mu":
		// the mutex of a struct: address of its (first) sync.Mutex / sync.RWMutex field, whatever
		// its name - so that contracts survive a change of the lock's type
		v, err := c.eval(x.Args[0])
		if err != nil {
			return TV{}, err
		}
		if v.Ty == nil {
			return TV{}, fmt.Errorf("mu() needs a pointer to a struct")
		}
		pt, ok := v.Ty.Underlying().(*types.Pointer)
		if !ok {
			return TV{}, fmt.Errorf("mu() needs a pointer to a struct")
		}
		stt, ok := pt.Elem().Underlying().(*types.Struct)
		if !ok {
			return TV{}, fmt.Errorf("mu() needs a pointer to a struct")
		}
		si := c.W().StructOf(pt.Elem())
		for i := 0; i < stt.NumFields(); i++ {
			if nt, ok := stt.Field(i).Type().(*types.Named); ok && nt.Obj().Pkg() != nil && nt.Obj().Pkg().Path() == "sync" &&
				(nt.Obj().Name() == "Mutex" || nt.Obj().Name() == "RWMutex") {
				return TV{Val: FieldLoc(v.Val, si.Fields[i].FID), Ty: types.NewPointer(stt.Field(i).Type())}, nil
			}
		}
		return TV{}, fmt.Errorf("mu(): %s has no mutex field", pt.Elem())
	case "allocated":
		// the referenced object exists in this state (a type invariant of every stored reference)
		r, err := c.evalCall(&SCall{Fun: &SIdent{"ref"}, Args: x.Args})
		if err != nil {
			return TV{}, err
		}
		return TV{Val: And(Val{app("<=", "0", r.T), SBool}, Val{app("<", r.T, c.st.next.T), SBool}), Ty: boolT}, nil
	case "loc":
		l, t, err := c.evalAddr(x.Args[0])
		if err != nil {
			return TV{}, err
		}
		return TV{Val: l, Ty: types.NewPointer(t)}, nil
	case "eqbytes":
		a, err := c.eval(x.Args[0])
		if err != nil {
			return TV{}, err
		}
		b, err := c.eval(x.Args[1])
		if err != nil {
			return TV{}, err
		}
		i := Val{fmt.Sprintf("eb!%d", c.depth), BVSort(64)}
		u8 := types.Typ[types.Uint8]
		body := Implies(And(BVCmp("bvsle", BV(64, 0), i), BVCmp("bvslt", i, SLen(a.Val))),
			Eq(c.e.load(c.st, ElemLoc(SBase(a.Val), i), u8), c.e.load(c.st, ElemLoc(SBase(b.Val), i), u8)))
		return TV{Val: And(Eq(SLen(a.Val), SLen(b.Val)), Forall([]Val{i}, body)), Ty: boolT}, nil
	case "sel":
		a, err := c.eval(x.Args[0])
		if err != nil {
			return TV{}, err
		}
		return c.evalIndexVal(a, x.Args[1])
	case "upd":
		a, err := c.eval(x.Args[0])
		if err != nil {
			return TV{}, err
		}
		if !a.S.IsArray() {
			return TV{}, fmt.Errorf("upd on non-array")
		}
		ks, vs := a.S.ArrayParts()
		i, err := c.eval(x.Args[1])
		if err != nil {
			return TV{}, err
		}
		i, err = c.coerce(i, TV{Val: Val{"", ks}})
		if err != nil {
			return TV{}, err
		}
		v, err := c.eval(x.Args[2])
		if err != nil {
			return TV{}, err
		}
		v, err = c.coerce(v, TV{Val: Val{"", vs}})
		if err != nil {
			return TV{}, err
		}
		if i.S != ks || v.S != vs {
			return TV{}, fmt.Errorf("upd: sorts %s,%s for array %s", i.S, v.S, a.S)
		}
		return TV{Val: Store(a.Val, i.Val, v.Val), Ty: a.Ty}, nil
	case "emptyset":
		_, s, err := c.resolveType(specString(x.Args[0]))
		if err != nil {
			return TV{}, err
		}
		as := ArraySort(s, SBool)
		return TV{Val: Val{fmt.Sprintf("((as const %s) false)", as), as}}, nil
	case "int", "int64", "uint", "uint64", "uint32", "int32", "uint16", "uint8", "byte", "int8", "int16", "uintptr":
		v, err := c.eval(x.Args[0])
		if err != nil {
			return TV{}, err
		}
		t := types.Universe.Lookup(name).Type()
		b := t.Underlying().(*types.Basic)
		n, _ := intWidth(b)
		if v.Lit != nil {
			return TV{Val: BVBig(n, v.Lit), Ty: t}, nil
		}
		if !v.S.IsBV() {
			return TV{}, fmt.Errorf("%s() of sort %s", name, v.S)
		}
		if v.Ty != nil && isSigned(v.Ty) {
			return TV{Val: SExt(n, v.Val), Ty: t}, nil
		}
		return TV{Val: ZExt(n, v.Val), Ty: t}, nil
	case "atentry":
		// value of an expression in the pre-state of the innermost enclosing loop
		if c.loopPre == nil {
			return TV{}, fmt.Errorf("atentry() used outside a loop invariant")
		}
		return c.inState(c.loopPre).eval(x.Args[0])
	case "strval":
		// string(b) for a byte slice, evaluated in the current state
		v, err := c.eval(x.Args[0])
		if err != nil {
			return TV{}, err
		}
		if v.S != SSlice {
			return TV{}, fmt.Errorf("strval() needs a byte slice")
		}
		if c.depth > 0 {
			// under a binder: the bare term (no named constant, no side fact mentioning the bound variable)
			_, h := c.e.scalarHeap(c.st, BVSort(8))
			f := c.W().Uninterp("str_of_bytes", []Sort{h.S, SLoc, BVSort(64)}, SStr)
			return TV{Val: Val{app(f, h.T, SBase(v.Val).T, SLen(v.Val).T), SStr}, Ty: types.Typ[types.String]}, nil
		}
		return TV{Val: c.e.bytesToString(c.st, v.Val), Ty: types.Typ[types.String]}, nil
	case "strcat":
		// a + b on strings (the uninterpreted str_cat the code's concatenation is modelled with)
		if len(x.Args) != 2 {
			return TV{}, fmt.Errorf("strcat(a, b)")
		}
		a, err := c.eval(x.Args[0])
		if err != nil {
			return TV{}, err
		}
		b, err := c.eval(x.Args[1])
		if err != nil {
			return TV{}, err
		}
		if a.S != SStr || b.S != SStr {
			return TV{}, fmt.Errorf("strcat needs strings")
		}
		f := c.W().Uninterp("str_cat", []Sort{SStr, SStr}, SStr)
		return TV{Val: Val{app(f, a.T, b.T), SStr}, Ty: types.Typ[types.String]}, nil
	case "iterseen":
		// iterseen(k): the enclosing range loop over a map has already delivered key k
		if len(c.st.iters) != 1 {
			return TV{}, fmt.Errorf("iterseen(): %d iterators are live here (need exactly one)", len(c.st.iters))
		}
		k, err := c.eval(x.Args[0])
		if err != nil {
			return TV{}, err
		}
		for _, vis := range c.st.iters {
			if !vis.S.IsArray() {
				return TV{}, fmt.Errorf("iterseen(): not a map iterator")
			}
			return TV{Val: Select(vis, k.Val), Ty: types.Typ[types.Bool]}, nil
		}
	case "itercount":
		// number of keys delivered so far by the map iterator of the enclosing range loop
		if c.fr == nil {
			return TV{}, fmt.Errorf("itercount() outside a function body")
		}
		var best Val
		n := 0
		for _, v := range c.st.iterN {
			best = v
			n++
		}
		if n != 1 {
			return TV{}, fmt.Errorf("itercount(): %d map iterators are live here (need exactly one)", n)
		}
		return TV{Val: best, Ty: types.Typ[types.Int]}, nil
	case "heap8":
		_, h := c.e.scalarHeap(c.st, BVSort(8))
		return TV{Val: h}, nil
	case "unchanged":
		// the elements of a slice hold the same values as in the pre-state (all leaf heaps)
		v, err := c.eval(x.Args[0])
		if err != nil {
			return TV{}, err
		}
		if v.S != SSlice || c.old == nil || v.Ty == nil {
			return TV{}, fmt.Errorf("unchanged() needs a slice and a pre-state")
		}
		elem := v.Ty.Underlying().(*types.Slice).Elem()
		var parts []Val
		for _, lf := range c.W().Leaves(elem) {
			if _, isArr := lf.Type.Underlying().(*types.Array); isArr {
				continue
			}
			_, hn := c.e.scalarHeapT(c.st, lf.Sort, lf.Type)
			_, ho := c.e.scalarHeapT(c.old, lf.Sort, lf.Type)
			if hn.T == ho.T {
				continue
			}
			l := Val{fmt.Sprintf("uc!%d", c.depth), SLoc}
			in := c.e.inRange(l, SBase(v.Val), SLen(v.Val), lf.Path)
			parts = append(parts, quant("forall", []Val{l}, Implies(in, Eq(Select(hn, l), Select(ho, l))), []string{Select(hn, l).T}))
		}
		return TV{Val: And(parts...), Ty: boolT}, nil
	case "toint":
		// bit-vector (unsigned) to mathematical integer
		v, err := c.eval(x.Args[0])
		if err != nil {
			return TV{}, err
		}
		return TV{Val: Val{app("bv2nat", v.T), SInt}}, nil
	}
	if gf, ok := c.e.P.CS.GhostFields[name]; ok {
		return c.ghostField(gf, x.Args)
	}
	if sf, ok := c.e.P.CS.SpecFuncs[name]; ok {
		return c.callSpecFunc(sf, x.Args)
	}
	return TV{}, fmt.Errorf("unknown function %s in contract", specString(x.Fun))
}

func (c *EvalCtx) evalIndexVal(a TV, idx SExpr) (TV, error) {
	if !a.S.IsArray() {
		return TV{}, fmt.Errorf("sel on non-array sort %s", a.S)
	}
	ks, vs := a.S.ArrayParts()
	i, err := c.eval(idx)
	if err != nil {
		return TV{}, err
	}
	i, err = c.coerce(i, TV{Val: Val{"", ks}})
	if err != nil {
		return TV{}, err
	}
	if i.S != ks {
		return TV{}, fmt.Errorf("sel index sort %s, want %s", i.S, ks)
	}
	return TV{Val: Select(a.Val, i.Val), Unsigned: vs.IsBV()}, nil
}

func (c *EvalCtx) ghostLocArg(arg SExpr, on string, spec *SpecFile) (Val, error) {
	v, err := c.eval(arg)
	if err == nil && v.S == SLoc {
		return v.Val, nil
	}
	if err == nil && v.S == SInt && (v.Ty != nil && (isMap(v.Ty))) {
		// maps: ghost fields on map references use a pseudo-location
		return MkLoc(v.Val, BV(64, 0), PNil), nil
	}
	if err == nil && v.S == SIface {
		return IVal(v.Val), nil
	}
	if err == nil && v.S == SFunc {
		return FEnv(v.Val), nil
	}
	l, _, err2 := c.evalAddr(arg)
	if err2 != nil {
		if err != nil {
			return Val{}, err
		}
		return Val{}, fmt.Errorf("ghost field argument %s is neither a pointer nor addressable", specString(arg))
	}
	return l, nil
}

func (c *EvalCtx) ghostFieldSort(gf *GhostField) (Sort, error) {
	_, s, err := (&EvalCtx{e: c.e, spec: gf.Spec}).resolveType(gf.Sort)
	return s, err
}

func (c *EvalCtx) ghostField(gf *GhostField, args []SExpr) (TV, error) {
	if len(args) != 1 {
		return TV{}, fmt.Errorf("ghost field %s takes one argument", gf.Name)
	}
	loc, err := c.ghostLocArg(args[0], gf.On, gf.Spec)
	if err != nil {
		return TV{}, err
	}
	s, err := c.ghostFieldSort(gf)
	if err != nil {
		return TV{}, err
	}
	t, _, _ := (&EvalCtx{e: c.e, spec: gf.Spec}).resolveType(gf.Sort)
	if ab := c.e.abstractionFor(gf.Name, loc); ab != nil {
		// refinement check: the interface-level ghost field of the receiver is its abstraction function
		recvT, _, err := (&EvalCtx{e: c.e, spec: ab.Spec}).resolveType(ab.OnType)
		if err != nil {
			return TV{}, fmt.Errorf("%s:%d: %v", ab.File, ab.Line, err)
		}
		base := &EvalCtx{e: c.e, st: c.st, old: c.old, fr: c.fr, spec: ab.Spec, depth: c.depth, bind: map[string]TV{ab.Param: {Val: loc, Ty: recvT}}}
		if ab.IdxVar == "" {
			return base.eval(ab.Body)
		}
		it, is, err := base.resolveType(ab.IdxType)
		if err != nil {
			return TV{}, fmt.Errorf("%s:%d: %v", ab.File, ab.Line, err)
		}
		return TV{Val: Val{"|abstract " + gf.Name + "|", s}, Abs: func(idx TV) (TV, error) {
			iv, err := c.coerce(idx, TV{Val: Val{"", is}, Ty: it})
			if err != nil {
				return TV{}, err
			}
			if iv.S != is {
				return TV{}, fmt.Errorf("abstraction %s: index sort %s, want %s", gf.Name, iv.S, is)
			}
			iv.Ty = it
			if it == nil {
				iv.Unsigned = true
			}
			cc := base.with(ab.IdxVar, iv)
			return cc.eval(ab.Body)
		}}, nil
	}
	h := c.e.heap(c.st, "G_"+gf.Name, ArraySort(SLoc, s))
	return TV{Val: Select(h, loc), Ty: t, Unsigned: true}, nil
}

func (c *EvalCtx) specArgs(sf *SpecFunc, args []SExpr) ([]TV, error) {
	if len(args) != len(sf.Params) {
		return nil, fmt.Errorf("%s expects %d arguments", sf.Name, len(sf.Params))
	}
	if c.depth > 40 {
		return nil, fmt.Errorf("spec function recursion too deep at %s", sf.Name)
	}
	tc := &EvalCtx{e: c.e, spec: sf.Spec}
	var avs []TV
	for i, a := range args {
		v, err := c.eval(a)
		if err != nil {
			return nil, err
		}
		pt, ps, err := tc.resolveType(sf.Params[i].Type)
		if err != nil {
			return nil, fmt.Errorf("%s: %v", sf.Name, err)
		}
		v, err = c.coerce(v, TV{Val: Val{"", ps}, Ty: pt})
		if err != nil {
			return nil, err
		}
		if v.S != ps {
			return nil, fmt.Errorf("%s: argument %d has sort %s, want %s", sf.Name, i+1, v.S, ps)
		}
		if pt != nil {
			v.Ty = pt
		} else {
			v.Unsigned = true
		}
		avs = append(avs, v)
	}
	return avs, nil
}

func (c *EvalCtx) callSpecFunc(sf *SpecFunc, args []SExpr) (TV, error) {
	if len(args) != len(sf.Params) {
		return TV{}, fmt.Errorf("%s expects %d arguments", sf.Name, len(sf.Params))
	}
	if c.depth > 40 {
		return TV{}, fmt.Errorf("spec function recursion too deep at %s", sf.Name)
	}
	tc := &EvalCtx{e: c.e, spec: sf.Spec}
	var avs []TV
	for i, a := range args {
		v, err := c.eval(a)
		if err != nil {
			return TV{}, err
		}
		pt, ps, err := tc.resolveType(sf.Params[i].Type)
		if err != nil {
			return TV{}, fmt.Errorf("%s: %v", sf.Name, err)
		}
		v, err = c.coerce(v, TV{Val: Val{"", ps}, Ty: pt})
		if err != nil {
			return TV{}, err
		}
		if v.S != ps {
			return TV{}, fmt.Errorf("%s: argument %d has sort %s, want %s", sf.Name, i+1, v.S, ps)
		}
		if pt != nil {
			v.Ty = pt
		} else {
			v.Unsigned = true
		}
		avs = append(avs, v)
	}
	rt, rs, err := tc.resolveType(sf.Ret)
	if err != nil {
		return TV{}, fmt.Errorf("%s: %v", sf.Name, err)
	}
	if sf.Body == nil || sf.Opaque {
		var sorts []Sort
		var ts []string
		for _, a := range avs {
			sorts = append(sorts, a.S)
			ts = append(ts, a.T)
		}
		f := c.W().Uninterp("sf_"+sf.Name, sorts, rs)
		var appl Val
		if len(ts) == 0 {
			appl = Val{f, rs}
		} else {
			appl = Val{app(f, ts...), rs}
		}
		if sf.Body != nil && c.e.revealed[sf.Name] {
			// revealed opaque function: add the definitional instance for these arguments
			bound := false
			for _, t := range ts {
				if strings.Contains(t, "!") {
					bound = true
				}
			}
			key := appl.T
			if !bound && !c.e.revealDone[key] {
				c.e.revealDone[key] = true
				bc := &EvalCtx{e: c.e, st: c.st, old: c.old, fr: nil, bind: map[string]TV{}, spec: sf.Spec, depth: c.depth + 1}
				for i, p := range sf.Params {
					bc.bind[p.Name] = avs[i]
				}
				r, err := bc.eval(sf.Body)
				if err != nil {
					return TV{}, fmt.Errorf("in %s: %v", sf.Name, err)
				}
				r, err = c.coerce(r, TV{Val: Val{"", rs}, Ty: rt})
				if err != nil {
					return TV{}, err
				}
				if r.S != rs {
					return TV{}, fmt.Errorf("%s: body has sort %s, declared %s", sf.Name, r.S, rs)
				}
				c.e.fact(Eq(appl, r.Val))
			}
		}
		return TV{Val: appl, Ty: rt, Unsigned: rt == nil}, nil
	}
	// macro expansion in the current state, in the spec function's own file scope
	bc := &EvalCtx{e: c.e, st: c.st, old: c.old, fr: nil, bind: map[string]TV{}, spec: sf.Spec, depth: c.depth + 1}
	for i, p := range sf.Params {
		bc.bind[p.Name] = avs[i]
	}
	r, err := bc.eval(sf.Body)
	if err != nil {
		return TV{}, fmt.Errorf("in %s: %v", sf.Name, err)
	}
	r, err = c.coerce(r, TV{Val: Val{"", rs}, Ty: rt})
	if err != nil {
		return TV{}, err
	}
	if r.S != rs {
		return TV{}, fmt.Errorf("%s: body has sort %s, declared %s", sf.Name, r.S, rs)
	}
	r.Ty = rt
	if rt == nil {
		r.Unsigned = true
	}
	return r, nil
}

// modTarget describes one element of a modifies clause.
type modTarget struct {
	kind  string // "ghostfield", "ghostvar", "loc", "elems", "object", "all"
	name  string
	loc   Val
	typ   types.Type
	slice Val
}

func (c *EvalCtx) evalModTarget(x SExpr) (modTarget, error) {
	switch t := x.(type) {
	case *SIdent:
		if t.Name == "everything" {
			return modTarget{kind: "all"}, nil
		}
		if _, ok := c.e.P.CS.GhostVars[t.Name]; ok {
			return modTarget{kind: "ghostvar", name: t.Name}, nil
		}
	case *SCall:
		if id, ok := t.Fun.(*SIdent); ok {
			if gf, ok := c.e.P.CS.GhostFields[id.Name]; ok {
				loc, err := c.ghostLocArg(t.Args[0], gf.On, gf.Spec)
				if err != nil {
					return modTarget{}, err
				}
				return modTarget{kind: "ghostfield", name: gf.Name, loc: loc}, nil
			}
			if id.Name == "elems" {
				s, err := c.eval(t.Args[0])
				if err != nil {
					return modTarget{}, err
				}
				if s.S != SSlice {
					return modTarget{}, fmt.Errorf("elems() needs a slice")
				}
				return modTarget{kind: "elems", slice: s.Val, typ: s.Ty.Underlying().(*types.Slice).Elem()}, nil
			}
			if id.Name == "mapc" {
				m, err := c.eval(t.Args[0])
				if err != nil {
					return modTarget{}, err
				}
				if m.Ty == nil || !isMap(m.Ty) {
					return modTarget{}, fmt.Errorf("mapc() needs a map")
				}
				return modTarget{kind: "map", loc: m.Val, typ: m.Ty}, nil
			}
			if id.Name == "object" {
				p, err := c.eval(t.Args[0])
				if err != nil {
					return modTarget{}, err
				}
				var l Val
				switch p.S {
				case SLoc:
					l = p.Val
				case SIface:
					l = IVal(p.Val)
				case SSlice:
					l = SBase(p.Val)
				default:
					return modTarget{}, fmt.Errorf("object() of sort %s", p.S)
				}
				return modTarget{kind: "object", loc: l}, nil
			}
		}
	case *SUnary:
		if t.Op == "*" {
			p, err := c.eval(t.X)
			if err != nil {
				return modTarget{}, err
			}
			pt, ok := p.Ty.Underlying().(*types.Pointer)
			if !ok {
				return modTarget{}, fmt.Errorf("modifies *%s: not a pointer", specString(t.X))
			}
			return modTarget{kind: "loc", loc: p.Val, typ: pt.Elem()}, nil
		}
	}
	l, ty, err := c.evalAddr(x)
	if err != nil {
		return modTarget{}, fmt.Errorf("bad modifies target %s: %v", specString(x), err)
	}
	return modTarget{kind: "loc", loc: l, typ: ty}, nil
}

func sanitizeLabel(s string) string {
	return strings.Join(strings.Fields(s), " ")
}

// evalConjuncts evaluates a boolean spec expression as a list of conjuncts whose conjunction is
// equivalent to it: top-level &&, the consequent of ==>, the body of forall and the bodies of
// defined (non-opaque) spec functions are split. Each conjunct becomes an obligation of its own.
func (c *EvalCtx) evalConjuncts(x SExpr, budget *int) ([]Val, error) {
	single := func() ([]Val, error) {
		v, err := c.evalBool(x)
		if err != nil {
			return nil, err
		}
		return []Val{v}, nil
	}
	if *budget <= 0 {
		return single()
	}
	switch t := x.(type) {
	case *SBinary:
		switch t.Op {
		case "&&":
			l, err := c.evalConjuncts(t.X, budget)
			if err != nil {
				return nil, err
			}
			*budget--
			r, err := c.evalConjuncts(t.Y, budget)
			if err != nil {
				return nil, err
			}
			return append(l, r...), nil
		case "==>":
			p, err := c.evalBool(t.X)
			if err != nil {
				return nil, err
			}
			cs, err := c.evalConjuncts(t.Y, budget)
			if err != nil {
				return nil, err
			}
			for i := range cs {
				cs[i] = Implies(p, cs[i])
			}
			return cs, nil
		}
	case *SQuant:
		if t.Forall {
			parts := splitConjSyntactic(t.Body)
			if len(parts) > 1 && len(parts) <= *budget {
				var out []Val
				for _, pt := range parts {
					q := *t
					q.Body = pt
					v, err := c.evalBool(&q)
					if err != nil {
						return nil, err
					}
					out = append(out, v)
					*budget--
				}
				return out, nil
			}
		}
	case *SCall:
		if id, ok := t.Fun.(*SIdent); ok {
			if sf, ok := c.e.P.CS.SpecFuncs[id.Name]; ok && sf.Body != nil && !sf.Opaque && strings.TrimSpace(sf.Ret) == "bool" && c.depth < 8 {
				if _, shadow := c.bind[id.Name]; !shadow {
					avs, err := c.specArgs(sf, t.Args)
					if err != nil {
						return nil, err
					}
					bc := &EvalCtx{e: c.e, st: c.st, old: c.old, fr: nil, bind: map[string]TV{}, spec: sf.Spec, depth: c.depth + 1, loopPre: c.loopPre, loopIdx: c.loopIdx}
					for i, p := range sf.Params {
						bc.bind[p.Name] = avs[i]
					}
					return bc.evalConjuncts(sf.Body, budget)
				}
			}
		}
	}
	return single()
}

// splitConjSyntactic: conjuncts of e obtained by splitting && and distributing ==> over it.
func splitConjSyntactic(x SExpr) []SExpr {
	if b, ok := x.(*SBinary); ok {
		if b.Op == "&&" {
			return append(splitConjSyntactic(b.X), splitConjSyntactic(b.Y)...)
		}
		if b.Op == "==>" {
			rs := splitConjSyntactic(b.Y)
			if len(rs) > 1 {
				var out []SExpr
				for _, r := range rs {
					out = append(out, &SBinary{Op: "==>", X: b.X, Y: r})
				}
				return out
			}
		}
	}
	return []SExpr{x}
}
