package main

// Contract data model and loader. Contracts for coredhcp functions live in
// /repo/**/contracts_verif.go (comment-only, //go:build verif) as //@ lines;
// assumed contracts for dependencies live in /verif/contracts/assumed/*.spec.

import (
	"bufio"
	"fmt"
	"os"
	"path/filepath"
	"sort"
	"strconv"
	"strings"
)

type Clause struct {
	Kind  string // requires, ensures, invariant, decreases, assert, axiom
	Tags  []string
	Label string
	Expr  SExpr
	Src   string
	File  string
	Line  int
}

type LoopSpec struct {
	Invariants []*Clause
	Decreases  *Clause
}

type SplitSpec struct {
	Var    string
	Lo, Hi int
}

type SParam struct {
	Name string
	Type string
}

type FuncContract struct {
	Key                     string
	Requires                []*Clause
	Ensures                 []*Clause
	Modifies                []SExpr
	ModSrc                  []string
	HasMod                  bool
	Loops                   map[int]*LoopSpec
	Split                   *SplitSpec
	Trusted                 bool     // body not verified: the contract is an assumption
	Transfers               []SExpr  // ownership tokens handed to the new goroutine by a go statement
	Uses                    []string // lemmas assumed (universally quantified) in this unit
	Constructs              string
	Refines                 []string // interface types whose method contract this method is checked against
	TrustedPost             bool     // body verified for safety/pre/lock/frame only: the ensures clauses are assumptions
	Pure                    bool     // no heap effect at all
	Inline                  bool
	Implements              []string
	Assumed                 bool // comes from the assumed-contract files (dependency)
	Params                  []string
	File                    string
	Line                    int
	Spec                    *SpecFile
	NoPanic                 bool
	Fresh                   bool // results are freshly allocated objects
	Reveals                 []string
	Asserts                 []*AssertSpec
	LoopsAssumedToTerminate map[int]string // loop ordinal -> reason (non-range loops without a decreases clause)
	Preserves               []SExpr        // objects that calls with an unbounded frame (function values, unspecified externals) cannot reach
}

// AssertSpec: an assertion checked just before the call whose source text contains Key.
type AssertSpec struct {
	Key     string
	Clause  *Clause
	Matched int
}

type SpecFunc struct {
	Opaque bool
	Name   string
	Params []SParam
	Ret    string
	Body   SExpr
	Src    string
	Spec   *SpecFile
	File   string
	Line   int
}

type GhostField struct {
	Name string
	On   string
	Sort string
	Spec *SpecFile
}

// Abstraction: what a ghost field of the interface-level view means for one concrete type
// (`abstracts outst(a *IPv4Allocator)[key bv128] = e` or `abstracts poollo(a *IPv4Allocator) = e`).
type Abstraction struct {
	Field   string
	Param   string
	OnType  string // as written, e.g. *IPv4Allocator
	IdxVar  string // "" for scalar ghost fields
	IdxType string
	Body    SExpr
	Spec    *SpecFile
	File    string
	Line    int
}

type GhostVar struct {
	Name string
	Type string
	Spec *SpecFile
}

type Lemma struct {
	Name     string
	Params   []SParam
	Requires []*Clause
	Ensures  []*Clause
	Split    *SplitSpec
	Tags     []string
	Reveals  []string
	Triggers [][]SExpr // instantiation patterns for `uses`
	Spec     *SpecFile
	File     string
	Line     int
}

type GuardDecl struct {
	Type  string // struct type key ("" for globals)
	Field string // field name or global name
	By    string // mutex field name or global name
	Spec  *SpecFile
}

// ProtectsDecl: the state a mutex field protects. When the mutex is acquired, that state is
// whatever other goroutines left there: it is havocked, the invariant is assumed, and old() of
// that state is rebased to the moment of acquisition (contracts then describe the critical section).
type ProtectsDecl struct {
	Type      string // struct type key
	Field     string // mutex field name
	Targets   []SExpr
	Invariant SExpr
	Spec      *SpecFile
	File      string
	Line      int
}

type ExternDefault struct {
	Pattern string
	Pure    bool
}

type SpecFile struct {
	Path    string
	PkgPath string            // package the file belongs to ("" for assumed files)
	Imports map[string]string // alias -> import path
}

type Contracts struct {
	Funcs        map[string]*FuncContract
	Types        map[string]*FuncContract // function-type and interface-method contracts
	SpecFuncs    map[string]*SpecFunc
	GhostFields  map[string]*GhostField
	GhostVars    map[string]*GhostVar
	Lemmas       map[string]*Lemma
	LemmaOrder   []string
	Axioms       []*Clause
	AxiomSpec    map[*Clause]*SpecFile
	Guards       []*GuardDecl
	Protects     []*ProtectsDecl
	Abstractions []*Abstraction
	Externs      []ExternDefault
	Files        []string
	Immutable    map[string]bool      // "TypeKey.field"
	ImmGlobals   map[string]*SpecFile // "pkg/path.Name" -> declaring file
	InitEnsures  map[string][]*Clause // package path -> clauses established by package initialisation
	InitSpec     map[string]*SpecFile
	PluginInv    map[string][]*Clause // package path -> invariants established by setup, assumed by handlers
	WrittenBy    map[string][]string  // global key -> functions (short names) allowed to write it
}

func NewContracts() *Contracts {
	return &Contracts{
		Funcs: map[string]*FuncContract{}, Types: map[string]*FuncContract{},
		SpecFuncs: map[string]*SpecFunc{}, GhostFields: map[string]*GhostField{},
		GhostVars: map[string]*GhostVar{}, Lemmas: map[string]*Lemma{},
		AxiomSpec: map[*Clause]*SpecFile{}, Immutable: map[string]bool{},
		ImmGlobals: map[string]*SpecFile{}, InitEnsures: map[string][]*Clause{}, InitSpec: map[string]*SpecFile{},
		PluginInv: map[string][]*Clause{}, WrittenBy: map[string][]string{},
	}
}

// expandKey rewrites import aliases in a function/type key into full import paths.
func (sf *SpecFile) expandKey(key string) string {
	key = strings.TrimSpace(key)
	// method form: (*alias.T).M  or (alias.T).M  or (*T).M
	if strings.HasPrefix(key, "(") {
		end := strings.Index(key, ")")
		recv := key[1:end]
		rest := key[end+1:]
		star := ""
		if strings.HasPrefix(recv, "*") {
			star = "*"
			recv = recv[1:]
		}
		return "(" + star + sf.expandQualified(recv) + ")" + rest
	}
	return sf.expandQualified(key)
}

func (sf *SpecFile) expandQualified(name string) string {
	if i := strings.LastIndex(name, "."); i >= 0 && !strings.Contains(name, "/") {
		alias := name[:i]
		if p, ok := sf.Imports[alias]; ok {
			return p + "." + name[i+1:]
		}
		// standard library single-element paths (bytes.Compare) stay as they are
		return name
	}
	if strings.Contains(name, "/") {
		return name
	}
	if sf.PkgPath != "" {
		return sf.PkgPath + "." + name
	}
	return name
}

func parseTags(s string) (tags []string, label string) {
	// s is the text inside [...]
	if i := strings.Index(s, ":"); i >= 0 {
		label = strings.TrimSpace(s[i+1:])
		s = s[:i]
	}
	for _, t := range strings.Split(s, ",") {
		t = strings.TrimSpace(t)
		if t != "" {
			tags = append(tags, t)
		}
	}
	return
}

func (cs *Contracts) LoadFile(path, pkgPath string, fromRepo bool) error {
	f, err := os.Open(path)
	if err != nil {
		return err
	}
	defer f.Close()
	sf := &SpecFile{Path: path, PkgPath: pkgPath, Imports: map[string]string{}}
	cs.Files = append(cs.Files, path)
	sc := bufio.NewScanner(f)
	sc.Buffer(make([]byte, 1<<20), 1<<20)
	var lines []string
	var lineNos []int
	n := 0
	pending := ""
	pendingLine := 0
	for sc.Scan() {
		n++
		raw := sc.Text()
		var text string
		if fromRepo {
			t := strings.TrimSpace(raw)
			if !strings.HasPrefix(t, "//@") {
				continue
			}
			text = strings.TrimPrefix(t, "//@")
		} else {
			text = raw
			if i := strings.Index(text, " #"); i >= 0 && !strings.Contains(text[i:], "\"") {
				// '#' comments must be preceded by a space and not be inside the `#i` syntax
				if i+2 < len(text) && text[i+2] == ' ' {
					text = text[:i]
				}
			}
			if strings.HasPrefix(strings.TrimSpace(text), "# ") || strings.TrimSpace(text) == "#" {
				continue
			}
		}
		text = strings.TrimSpace(text)
		if text == "" {
			continue
		}
		if pending != "" {
			text = pending + " " + text
		} else {
			pendingLine = n
		}
		if strings.HasSuffix(text, "\\") {
			pending = strings.TrimSuffix(text, "\\")
			continue
		}
		pending = ""
		lines = append(lines, text)
		lineNos = append(lineNos, pendingLine)
	}
	var cur *FuncContract
	var curLemma *Lemma
	mkClause := func(kind, rest string, line int) (*Clause, error) {
		c := &Clause{Kind: kind, File: path, Line: line}
		rest = strings.TrimSpace(rest)
		if strings.HasPrefix(rest, "[") {
			end := strings.Index(rest, "]")
			c.Tags, c.Label = parseTags(rest[1:end])
			rest = strings.TrimSpace(rest[end+1:])
		}
		c.Src = rest
		e, err := parseSpecExpr(rest)
		if err != nil {
			return nil, fmt.Errorf("%s:%d: %v", path, line, err)
		}
		c.Expr = e
		return c, nil
	}
	for li, text := range lines {
		line := lineNos[li]
		word, rest := splitWord(text)
		errf := func(f string, a ...interface{}) error {
			return fmt.Errorf("%s:%d: %s", path, line, fmt.Sprintf(f, a...))
		}
		switch word {
		case "import":
			parts := strings.Fields(rest)
			if len(parts) != 2 {
				return errf("import alias \"path\"")
			}
			sf.Imports[parts[0]] = strings.Trim(parts[1], "\"")
		case "func", "type":
			key := sf.expandKey(rest)
			fc := &FuncContract{Key: key, Loops: map[int]*LoopSpec{}, Assumed: !fromRepo, File: path, Line: line, Spec: sf}
			if word == "func" {
				if _, dup := cs.Funcs[key]; dup {
					return errf("duplicate contract for %s", key)
				}
				cs.Funcs[key] = fc
			} else {
				if _, dup := cs.Types[key]; dup {
					return errf("duplicate type contract for %s", key)
				}
				cs.Types[key] = fc
			}
			cur = fc
			curLemma = nil
		case "lemma":
			// lemma name(params)
			name, params, err := parseSig(rest)
			if err != nil {
				return errf("%v", err)
			}
			l := &Lemma{Name: name, Params: params, Spec: sf, File: path, Line: line}
			// tags: lemma[C04] name(...)
			cs.Lemmas[name] = l
			cs.LemmaOrder = append(cs.LemmaOrder, name)
			curLemma = l
			cur = nil
		case "requires", "ensures":
			c, err := mkClause(word, rest, line)
			if err != nil {
				return err
			}
			if curLemma != nil {
				if word == "requires" {
					curLemma.Requires = append(curLemma.Requires, c)
				} else {
					curLemma.Ensures = append(curLemma.Ensures, c)
					curLemma.Tags = append(curLemma.Tags, c.Tags...)
				}
				continue
			}
			if cur == nil {
				return errf("%s outside func", word)
			}
			if word == "requires" {
				cur.Requires = append(cur.Requires, c)
			} else {
				cur.Ensures = append(cur.Ensures, c)
			}
		case "modifies":
			if cur == nil {
				return errf("modifies outside func")
			}
			cur.HasMod = true
			if strings.TrimSpace(rest) == "nothing" {
				continue
			}
			for _, part := range splitTopLevel(rest, ',') {
				e, err := parseSpecExpr(part)
				if err != nil {
					return errf("%v", err)
				}
				cur.Modifies = append(cur.Modifies, e)
				cur.ModSrc = append(cur.ModSrc, strings.TrimSpace(part))
			}
		case "loop":
			if cur == nil {
				return errf("loop outside func")
			}
			// loop N: invariant e | loop N: decreases e
			i := strings.Index(rest, ":")
			if i < 0 {
				return errf("loop N: ...")
			}
			nn, err := strconv.Atoi(strings.TrimSpace(rest[:i]))
			if err != nil {
				return errf("bad loop number")
			}
			w2, r2 := splitWord(strings.TrimSpace(rest[i+1:]))
			c, err := mkClause(w2, r2, line)
			if err != nil {
				return err
			}
			ls := cur.Loops[nn]
			if ls == nil {
				ls = &LoopSpec{}
				cur.Loops[nn] = ls
			}
			switch w2 {
			case "invariant":
				ls.Invariants = append(ls.Invariants, c)
			case "decreases":
				ls.Decreases = c
			default:
				return errf("unknown loop clause %q", w2)
			}
		case "split":
			// split var lo..hi
			parts := strings.Fields(rest)
			if len(parts) != 2 {
				return errf("split var lo..hi")
			}
			r := strings.Split(parts[1], "..")
			lo, _ := strconv.Atoi(r[0])
			hi, _ := strconv.Atoi(r[1])
			s := &SplitSpec{Var: parts[0], Lo: lo, Hi: hi}
			if curLemma != nil {
				curLemma.Split = s
			} else if cur != nil {
				cur.Split = s
			}
		case "assert":
			// assert before "<source text of a call>": expr
			if cur == nil {
				return errf("assert outside func")
			}
			r := strings.TrimSpace(rest)
			tags := ""
			if strings.HasPrefix(r, "[") {
				end := strings.Index(r, "]")
				tags = r[:end+1]
				r = strings.TrimSpace(r[end+1:])
			}
			if !strings.HasPrefix(r, "before \"") {
				return errf("assert before \"call text\": expr")
			}
			r = r[len("before \""):]
			q := strings.Index(r, "\"")
			key := r[:q]
			r = strings.TrimSpace(r[q+1:])
			r = strings.TrimPrefix(r, ":")
			cl, err := mkClause("assert", tags+" "+r, line)
			if err != nil {
				return err
			}
			cur.Asserts = append(cur.Asserts, &AssertSpec{Key: key, Clause: cl})
		case "loop-terminates":
			// loop-terminates N: reason   (an assumption, listed in the evidence)
			if cur == nil {
				return errf("loop-terminates outside func")
			}
			i := strings.Index(rest, ":")
			nn, err := strconv.Atoi(strings.TrimSpace(rest[:i]))
			if err != nil {
				return errf("loop-terminates N: reason")
			}
			if cur.LoopsAssumedToTerminate == nil {
				cur.LoopsAssumedToTerminate = map[int]string{}
			}
			cur.LoopsAssumedToTerminate[nn] = strings.TrimSpace(rest[i+1:])
		case "preserves":
			if cur == nil {
				return errf("preserves outside func")
			}
			for _, part := range splitTopLevel(rest, ',') {
				e, err := parseSpecExpr(part)
				if err != nil {
					return errf("%v", err)
				}
				cur.Preserves = append(cur.Preserves, e)
			}
		case "trigger":
			// trigger e1, e2, ... : instantiation pattern of a lemma when it is used (one multi-pattern)
			if curLemma == nil {
				return errf("trigger outside lemma")
			}
			var pat []SExpr
			for _, part := range splitTopLevelCommas(rest) {
				ex, err := parseSpecExpr(strings.TrimSpace(part))
				if err != nil {
					return errf("trigger: " + err.Error())
				}
				pat = append(pat, ex)
			}
			curLemma.Triggers = append(curLemma.Triggers, pat)
		case "reveal":
			var names []string
			for _, n := range strings.Split(rest, ",") {
				if n = strings.TrimSpace(n); n != "" {
					names = append(names, n)
				}
			}
			if curLemma != nil {
				curLemma.Reveals = append(curLemma.Reveals, names...)
			} else if cur != nil {
				cur.Reveals = append(cur.Reveals, names...)
			} else {
				return errf("reveal outside func/lemma")
			}
		case "opaque":
			// opaque pure func ...: handled like `pure func`, flagged opaque
			w2, r2 := splitWord(rest)
			if w2 != "pure" {
				return errf("opaque pure func ...")
			}
			before := map[string]bool{}
			for k := range cs.SpecFuncs {
				before[k] = true
			}
			lines[li] = "pure " + r2
			// re-dispatch by falling through to the pure case below
			if err := cs.parsePureFunc(sf, "pure "+r2, path, line); err != nil {
				return err
			}
			for k, f := range cs.SpecFuncs {
				if !before[k] {
					f.Opaque = true
				}
			}
		case "trusted":
			cur.Trusted = true
		case "trusted-ensures":
			cur.TrustedPost = true
		case "pure":
			if rest == "" {
				cur.Pure = true
				cur.HasMod = true
				continue
			}
			if err := cs.parsePureFunc(sf, text, path, line); err != nil {
				return err
			}
		case "nopanic":
			cur.NoPanic = true
		case "fresh":
			cur.Fresh = true
		case "inline":
			cur.Inline = true
		case "constructs":
			// constructs pkg.Interface : the first result is an object whose interface-level ghost view
			// (ghost fields with `abstracts` declarations) the postconditions describe
			cur.Constructs = sf.expandKey(rest)
		case "transfers":
			// transfers gv[e] : when the function is started with `go`, the spawning goroutine gives up
			// the ownership token gv[e] (a ghost array variable of booleans) - it becomes false there
			ex, err := parseSpecExpr(rest)
			if err != nil {
				return errf("transfers: " + err.Error())
			}
			if _, ok := ex.(*SIndex); !ok {
				return errf("transfers: expected ghostvar[index]")
			}
			cur.Transfers = append(cur.Transfers, ex)
		case "uses":
			// uses lemma_name[, lemma_name] : the lemma (proved on its own) is available as a quantified fact
			for _, n := range strings.Split(rest, ",") {
				if n = strings.TrimSpace(n); n != "" {
					cur.Uses = append(cur.Uses, n)
				}
			}
		case "refines":
			// refines pkg.Interface : the interface method contract of the same name must follow from this body
			cur.Refines = append(cur.Refines, sf.expandKey(rest))
		case "implements":
			cur.Implements = append(cur.Implements, sf.expandKey(rest))
		case "ghost":
			w2, r2 := splitWord(rest)
			switch w2 {
			case "field":
				// ghost field name(Type) Sort
				open := strings.Index(r2, "(")
				close := strings.Index(r2, ")")
				g := &GhostField{Name: strings.TrimSpace(r2[:open]), On: strings.TrimSpace(r2[open+1 : close]), Sort: strings.TrimSpace(r2[close+1:]), Spec: sf}
				cs.GhostFields[g.Name] = g
			case "var":
				parts := strings.SplitN(r2, " ", 2)
				g := &GhostVar{Name: parts[0], Type: strings.TrimSpace(parts[1]), Spec: sf}
				cs.GhostVars[g.Name] = g
			default:
				return errf("ghost field|var")
			}
		case "abstracts":
			// abstracts field(p Type)[idx Sort] = expr   |   abstracts field(p Type) = expr
			eq := strings.Index(rest, "=")
			if eq < 0 {
				return errf("abstracts field(p Type)[idx Sort] = expr")
			}
			head := strings.TrimSpace(rest[:eq])
			open := strings.Index(head, "(")
			close := strings.Index(head, ")")
			if open < 0 || close < open {
				return errf("abstracts field(p Type)[idx Sort] = expr")
			}
			pw := strings.Fields(head[open+1 : close])
			if len(pw) != 2 {
				return errf("abstracts: parameter must be `name Type`")
			}
			ab := &Abstraction{Field: strings.TrimSpace(head[:open]), Param: pw[0], OnType: pw[1], Spec: sf, File: path, Line: line}
			if tail := strings.TrimSpace(head[close+1:]); tail != "" {
				if !strings.HasPrefix(tail, "[") || !strings.HasSuffix(tail, "]") {
					return errf("abstracts: index must be `[name Sort]`")
				}
				iw := strings.Fields(tail[1 : len(tail)-1])
				if len(iw) != 2 {
					return errf("abstracts: index must be `[name Sort]`")
				}
				ab.IdxVar, ab.IdxType = iw[0], iw[1]
			}
			ex, err := parseSpecExpr(strings.TrimSpace(rest[eq+1:]))
			if err != nil {
				return errf("abstracts: " + err.Error())
			}
			ab.Body = ex
			cs.Abstractions = append(cs.Abstractions, ab)
		case "axiom":
			// axiom name: expr
			i := strings.Index(rest, ":")
			c, err := mkClause("axiom", rest[i+1:], line)
			if err != nil {
				return err
			}
			c.Label = strings.TrimSpace(rest[:i])
			cs.Axioms = append(cs.Axioms, c)
			cs.AxiomSpec[c] = sf
		case "protects":
			// protects Type.mutexfield: target, target invariant expr
			i := strings.Index(rest, ":")
			if i < 0 {
				return errf("protects Type.mutex: targets invariant expr")
			}
			head := strings.TrimSpace(rest[:i])
			body := rest[i+1:]
			j := strings.LastIndex(head, ".")
			pd := &ProtectsDecl{Type: sf.expandQualified(head[:j]), Field: head[j+1:], Spec: sf, File: path, Line: line}
			inv := ""
			if k := strings.Index(body, " invariant "); k >= 0 {
				inv = strings.TrimSpace(body[k+len(" invariant "):])
				body = body[:k]
			}
			for _, part := range splitTopLevel(body, ',') {
				e, err := parseSpecExpr(part)
				if err != nil {
					return errf("%v", err)
				}
				pd.Targets = append(pd.Targets, e)
			}
			if inv != "" {
				e, err := parseSpecExpr(inv)
				if err != nil {
					return errf("%v", err)
				}
				pd.Invariant = e
			}
			cs.Protects = append(cs.Protects, pd)
		case "guard":
			// guard Type.field by mutexfield   |  guard var name by mutexvar
			parts := strings.Fields(rest)
			if len(parts) == 4 && parts[0] == "var" && parts[2] == "by" {
				cs.Guards = append(cs.Guards, &GuardDecl{Type: "", Field: sf.expandQualified(parts[1]), By: sf.expandQualified(parts[3]), Spec: sf})
			} else if len(parts) == 3 && parts[1] == "by" {
				i := strings.LastIndex(parts[0], ".")
				cs.Guards = append(cs.Guards, &GuardDecl{Type: sf.expandQualified(parts[0][:i]), Field: parts[0][i+1:], By: parts[2], Spec: sf})
			} else {
				return errf("guard Type.field by mutex | guard var g by m")
			}
		case "global":
			// global Name immutable
			parts := strings.Fields(rest)
			if len(parts) >= 3 && parts[1] == "written-by" {
				// global Name written-by f1,f2 : only these functions (and the package initialiser) store to it
				var fs []string
				for _, f := range strings.Split(strings.Join(parts[2:], ""), ",") {
					fs = append(fs, strings.TrimSpace(f))
				}
				cs.WrittenBy[sf.expandQualified(parts[0])] = fs
				cs.InitSpec[sf.PkgPath] = sf
				continue
			}
			if len(parts) != 2 || parts[1] != "immutable" {
				return errf("global Name immutable | global Name written-by f,g")
			}
			cs.ImmGlobals[sf.expandQualified(parts[0])] = sf
		case "plugin-invariant":
			cl, err := mkClause("invariant", rest, line)
			if err != nil {
				return err
			}
			cs.PluginInv[sf.PkgPath] = append(cs.PluginInv[sf.PkgPath], cl)
			cs.InitSpec[sf.PkgPath] = sf
		case "init-ensures":
			pkg := sf.PkgPath
			if !fromRepo {
				// assumed files name the package: init-ensures <pkgpath>: expr
				i := strings.Index(rest, ":")
				if i < 0 {
					return errf("init-ensures <package>: <expr>")
				}
				pkg = strings.TrimSpace(rest[:i])
				if p, ok := sf.Imports[pkg]; ok {
					pkg = p
				}
				rest = rest[i+1:]
			}
			c, err := mkClause("ensures", rest, line)
			if err != nil {
				return err
			}
			cs.InitEnsures[pkg] = append(cs.InitEnsures[pkg], c)
			cs.InitSpec[pkg] = sf
		case "extern":
			// extern <pattern>: pure
			i := strings.LastIndex(rest, ":")
			cs.Externs = append(cs.Externs, ExternDefault{Pattern: strings.TrimSpace(rest[:i]), Pure: strings.TrimSpace(rest[i+1:]) == "pure"})
		case "package":
			// ignore (go package clause never has //@)
		default:
			return errf("unknown directive %q", word)
		}
	}
	return nil
}

func splitWord(s string) (string, string) {
	s = strings.TrimSpace(s)
	for i, c := range s {
		if c == ' ' || c == '\t' || c == '[' {
			if c == '[' {
				return s[:i], s[i:]
			}
			return s[:i], strings.TrimSpace(s[i+1:])
		}
	}
	return s, ""
}

func splitTopLevel(s string, sep byte) []string {
	var out []string
	depth := 0
	start := 0
	for i := 0; i < len(s); i++ {
		switch s[i] {
		case '(', '[':
			depth++
		case ')', ']':
			depth--
		default:
			if s[i] == sep && depth == 0 {
				out = append(out, s[start:i])
				start = i + 1
			}
		}
	}
	out = append(out, s[start:])
	return out
}

// parseSig parses "name(p1 T1, p2 T2)".
func parseSig(s string) (string, []SParam, error) {
	s = strings.TrimSpace(s)
	open := strings.Index(s, "(")
	close := strings.LastIndex(s, ")")
	if open < 0 || close < open {
		return "", nil, fmt.Errorf("bad signature %q", s)
	}
	name := strings.TrimSpace(s[:open])
	var params []SParam
	body := strings.TrimSpace(s[open+1 : close])
	if body != "" {
		for _, p := range splitTopLevel(body, ',') {
			p = strings.TrimSpace(p)
			i := strings.Index(p, " ")
			if i < 0 {
				return "", nil, fmt.Errorf("parameter %q needs a type", p)
			}
			params = append(params, SParam{Name: p[:i], Type: strings.TrimSpace(p[i+1:])})
		}
	}
	return name, params, nil
}

// LoadAll loads repo contract files and assumed spec files.
func (cs *Contracts) LoadAll(repo, modPath, assumedDir string) error {
	var repoFiles []string
	filepath.Walk(repo, func(p string, info os.FileInfo, err error) error {
		if err != nil {
			return nil
		}
		if info.IsDir() && (info.Name() == ".git" || info.Name() == "vendor") {
			return filepath.SkipDir
		}
		if !info.IsDir() && strings.HasSuffix(info.Name(), "_verif.go") {
			repoFiles = append(repoFiles, p)
		}
		return nil
	})
	sort.Strings(repoFiles)
	for _, p := range repoFiles {
		rel, _ := filepath.Rel(repo, filepath.Dir(p))
		pkg := modPath
		if rel != "." {
			pkg = modPath + "/" + filepath.ToSlash(rel)
		}
		if err := cs.LoadFile(p, pkg, true); err != nil {
			return err
		}
	}
	specs, _ := filepath.Glob(filepath.Join(assumedDir, "*.spec"))
	sort.Strings(specs)
	for _, p := range specs {
		if err := cs.LoadFile(p, "", false); err != nil {
			return err
		}
	}
	return nil
}

// parsePureFunc parses "pure func name(params) type [= expr]".
func (cs *Contracts) parsePureFunc(sf *SpecFile, text, path string, line int) error {
	errf := func(f string, a ...interface{}) error {
		return fmt.Errorf("%s:%d: %s", path, line, fmt.Sprintf(f, a...))
	}
	_, rest := splitWord(text) // drop "pure"
	w2, r2 := splitWord(rest)
	if w2 != "func" {
		return errf("pure func ...")
	}
	def := ""
	if i := strings.Index(r2, " = "); i >= 0 {
		def = strings.TrimSpace(r2[i+3:])
		r2 = r2[:i]
	}
	close := strings.LastIndex(r2, ")")
	name, params, err := parseSig(r2[:close+1])
	if err != nil {
		return errf("%v", err)
	}
	s := &SpecFunc{Name: name, Params: params, Ret: strings.TrimSpace(r2[close+1:]), Src: def, Spec: sf, File: path, Line: line}
	if def != "" {
		e, err := parseSpecExpr(def)
		if err != nil {
			return errf("%v", err)
		}
		s.Body = e
	}
	if _, dup := cs.SpecFuncs[name]; dup {
		return errf("duplicate pure func %s", name)
	}
	cs.SpecFuncs[name] = s
	return nil
}

// splitTopLevelCommas splits at commas that are not inside parentheses or brackets.
func splitTopLevelCommas(s string) []string {
	var out []string
	depth, start := 0, 0
	for i, ch := range s {
		switch ch {
		case '(', '[':
			depth++
		case ')', ']':
			depth--
		case ',':
			if depth == 0 {
				out = append(out, s[start:i])
				start = i + 1
			}
		}
	}
	return append(out, s[start:])
}
