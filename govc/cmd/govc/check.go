package main

// The `check` command: verify the units a property depends on, discharge the
// obligations, replay counterexamples, write evidence.

import (
	"crypto/sha256"
	"encoding/json"
	"flag"
	"fmt"
	"os"
	"path/filepath"
	"sort"
	"strconv"
	"strings"
	"sync"
	"time"

	"golang.org/x/tools/go/ssa"
)

type PropSpec struct {
	Units    []string `json:"units"`     // extra unit keys (function keys) beyond those carrying tagged clauses
	Lemmas   []string `json:"lemmas"`    // lemma names
	Kinds    []string `json:"kinds"`     // obligation kinds counted for untagged obligations (default: all)
	Sweep    []string `json:"sweep"`     // package path suffixes whose functions are swept for safety/lock obligations without contracts
	Exclude  []string `json:"exclude"`   // unit keys excluded from the sweep
	SweepAll bool     `json:"sweep_all"` // the sweep also verifies functions that have no contract (setup functions)
	AlsoTags []string `json:"also_tags"` // obligations tagged with these properties count for this one too
	Note     string   `json:"note"`
}

type KnownFinding struct {
	Property   string `json:"property"`
	Obligation string `json:"obligation"` // obligation name (prefix match allowed with trailing *)
	What       string `json:"what"`
	Witness    string `json:"witness"`
	Status     string `json:"status"` // open | fixed
	Commit     string `json:"commit,omitempty"`
	CarveOut   string `json:"carve_out,omitempty"` // spec expression over the unit's parameters: the failing input class
}

type unitResult struct {
	enc *Enc
	key string
}

func hasTag(tags []string, p string) bool {
	for _, t := range tags {
		if t == p {
			return true
		}
	}
	return false
}

func clauseTags(fc *FuncContract) map[string]bool {
	out := map[string]bool{}
	for _, c := range fc.Ensures {
		for _, t := range c.Tags {
			out[t] = true
		}
	}
	for _, c := range fc.Requires {
		for _, t := range c.Tags {
			out[t] = true
		}
	}
	for _, l := range fc.Loops {
		for _, c := range l.Invariants {
			for _, t := range c.Tags {
				out[t] = true
			}
		}
	}
	for _, as := range fc.Asserts {
		for _, t := range as.Clause.Tags {
			out[t] = true
		}
	}
	return out
}

func cmdCheck(argv []string) int {
	fs := flag.NewFlagSet("check", flag.ExitOnError)
	prop := fs.String("prop", "", "property id")
	tier := fs.String("tier", "quick", "quick|thorough")
	repo := fs.String("repo", "/repo", "repository root")
	verif := fs.String("verif", "/verif", "verification root")
	only := fs.String("unit", "", "only verify units whose name contains this")
	verbose := fs.Bool("v", false, "verbose")
	keep := fs.Bool("keep", false, "keep SMT files")
	noEvidence := fs.Bool("no-evidence", false, "do not write the evidence file")
	fs.Parse(argv)
	if *prop == "" {
		fmt.Fprintln(os.Stderr, "check: -prop required")
		return 2
	}
	t0 := time.Now()
	seed := 0
	if s := os.Getenv("VERIF_SEED"); s != "" {
		seed, _ = strconv.Atoi(s)
	}
	if t := os.Getenv("VERIF_TIER"); t != "" && (t == "quick" || t == "thorough") {
		*tier = t
	}
	p, err := loadProgram(*repo, *verif)
	if err != nil {
		fmt.Printf("UNDECIDED property=%s reason=%q\n", *prop, "cannot load repository: "+err.Error())
		return 2
	}
	props := map[string]*PropSpec{}
	if b, err := os.ReadFile(filepath.Join(*verif, "contracts", "props.json")); err == nil {
		if err := json.Unmarshal(b, &props); err != nil {
			fmt.Fprintln(os.Stderr, "props.json:", err)
			return 2
		}
	}
	ps := props[*prop]
	if ps == nil {
		ps = &PropSpec{}
	}
	var known []KnownFinding
	if b, err := os.ReadFile(filepath.Join(*verif, "known_findings.json")); err == nil {
		var kf struct {
			Findings []KnownFinding `json:"findings"`
			Fixed    []string       `json:"fixed"`
		}
		err := json.Unmarshal(b, &kf)
		known = kf.Findings
		for i := range known {
			if known[i].Status == "" {
				known[i].Status = "open"
			}
		}
		if err != nil {
			fmt.Fprintln(os.Stderr, "known_findings.json:", err)
			return 2
		}
	}
	workdir, _ := os.MkdirTemp("", "govc-"+*prop+"-")
	if !*keep {
		defer os.RemoveAll(workdir)
	} else {
		fmt.Fprintln(os.Stderr, "work dir:", workdir)
	}

	// ---- select units
	unitKeys := map[string]bool{}
	for key, fc := range p.CS.Funcs {
		if fc.Assumed || fc.Trusted {
			continue
		}
		if clauseTags(fc)[*prop] {
			unitKeys[key] = true
		}
		for _, at := range ps.AlsoTags {
			if clauseTags(fc)[at] {
				unitKeys[key] = true
			}
		}
		// methods checked against an interface method contract that carries clauses of this property
		for _, ik := range fc.Refines {
			if j := strings.LastIndex(key, "."); j >= 0 {
				if ifc, ok := p.CS.Funcs["("+ik+")"+key[j:]]; ok {
					tags := clauseTags(ifc)
					if tags[*prop] {
						unitKeys[key] = true
					}
					for _, at := range ps.AlsoTags {
						if tags[at] {
							unitKeys[key] = true
						}
					}
				}
			}
		}
		// implementations of a type contract that carries clauses of this property
		for _, im := range fc.Implements {
			if tfc, ok := p.CS.Types[im]; ok && clauseTags(tfc)[*prop] {
				unitKeys[key] = true
			}
		}
	}
	// callers of functions whose preconditions carry this property's tag: the obligation
	// arises at their call sites
	taggedCallee := map[string]bool{}
	for key, fc := range p.CS.Funcs {
		for _, rq := range fc.Requires {
			if hasTag(rq.Tags, *prop) {
				taggedCallee[key] = true
			}
		}
	}
	if len(taggedCallee) > 0 {
		for key, fn := range p.funcs {
			for _, b := range fn.Blocks {
				for _, in := range b.Instrs {
					if call, ok := in.(ssa.CallInstruction); ok {
						if callee := call.Common().StaticCallee(); callee != nil && taggedCallee[funcKey(callee)] {
							root := fn
							for root.Parent() != nil {
								root = root.Parent()
							}
							if _, has := p.CS.Funcs[funcKey(fn)]; has {
								unitKeys[key] = true
							} else {
								unitKeys[funcKey(root)] = true
							}
						}
					}
				}
			}
		}
	}
	for _, u := range ps.Units {
		found := false
		for key := range p.funcs {
			if key == u || shortenKey(key) == u {
				unitKeys[key] = true
				found = true
			}
		}
		if !found {
			fmt.Printf("UNDECIDED property=%s reason=%q\n", *prop, "unit "+u+" named in props.json no longer exists")
			return 2
		}
	}
	for _, sw := range ps.Sweep {
		for key, fn := range p.funcs {
			pk := fn.Pkg
			if pk == nil && fn.Parent() != nil {
				pk = fn.Parent().Pkg
			}
			if pk == nil || !strings.HasSuffix(pk.Pkg.Path(), sw) {
				continue
			}
			// functions without a contract are verified in context (inlined into their callers)
			if _, ok := p.CS.Funcs[key]; !ok && !(ps.SweepAll && fn.Parent() == nil && fn.Synthetic == "" && fn.Blocks != nil) {
				continue
			}
			if fn.Name() == "init" {
				continue
			}
			skip := false
			for _, ex := range ps.Exclude {
				if shortenKey(key) == ex || key == ex {
					skip = true
				}
			}
			if !skip {
				unitKeys[key] = true
			}
		}
	}
	// contracts that refer to functions that no longer exist are an error (UNDECIDED)
	for key, fc := range p.CS.Funcs {
		if fc.Assumed {
			continue
		}
		if _, ok := p.funcs[key]; !ok {
			if _, isIface := p.lookupInterfaceMethod(key); !isIface {
				fmt.Printf("UNDECIDED property=%s reason=%q\n", *prop, fmt.Sprintf("contract %s:%d is keyed to %s, which does not exist in the tree", fc.File, fc.Line, key))
				return 2
			}
		}
	}

	var encs []*Enc
	splitFuncs := map[string]*ssa.Function{}
	splitLemmas := map[string]*Lemma{}
	done := map[string]bool{}
	var work []string
	for k := range unitKeys {
		work = append(work, k)
	}
	sort.Strings(work)
	wantCover := *tier == "thorough"
	var undecided []string
	for len(work) > 0 {
		key := work[0]
		work = work[1:]
		if done[key] {
			continue
		}
		done[key] = true
		fn := p.funcs[key]
		if fn == nil {
			continue // interface method contract: no body
		}
		fc := p.CS.Funcs[key]
		if fc != nil && (fc.Trusted || fc.Assumed) {
			continue
		}
		if strings.HasSuffix(key, ".init") && fn.Synthetic != "" {
			pkg := strings.TrimSuffix(key, ".init")
			fc = &FuncContract{Key: key, Loops: map[int]*LoopSpec{}, Ensures: p.CS.InitEnsures[pkg], Spec: p.CS.InitSpec[pkg], File: "init-ensures of " + pkg}
			if len(fc.Ensures) == 0 {
				continue
			}
		}
		if *only != "" && !strings.Contains(shortenKey(key), *only) {
			continue
		}
		var units []*Enc
		units = append(units, p.VerifyFunction(fn, fc, nil, wantCover))
		if fc != nil && fc.Split != nil {
			splitFuncs[unitName(fn)] = fn
		}
		for _, e := range units {
			if e.failed != nil {
				undecided = append(undecided, e.failed.Error())
				continue
			}
			encs = append(encs, e)
			// callee closure
			for ck := range e.contractsUsed {
				if !done[ck] {
					if cfc, ok := p.CS.Funcs[ck]; ok && !cfc.Assumed && !cfc.Trusted {
						work = append(work, ck)
					}
					if strings.HasSuffix(ck, ".init") {
						work = append(work, ck)
					}
				}
			}
		}
	}
	// lemmas
	for _, name := range p.CS.LemmaOrder {
		l := p.CS.Lemmas[name]
		want := hasTag(l.Tags, *prop)
		for _, n := range ps.Lemmas {
			if n == name {
				want = true
			}
		}
		if !want || (*only != "" && !strings.Contains("lemma:"+name, *only)) {
			continue
		}
		if l.Split != nil {
			splitLemmas["lemma:"+name] = l
		}
		e := p.VerifyLemma(l, nil)
		if e.failed != nil {
			undecided = append(undecided, e.failed.Error())
			continue
		}
		encs = append(encs, e)
	}
	if len(undecided) > 0 {
		sort.Strings(undecided)
		for _, u := range undecided {
			fmt.Printf("UNDECIDED property=%s reason=%q\n", *prop, u)
		}
		return 2
	}

	// ---- collect obligations of this property
	var obs []*Oblig
	for _, e := range encs {
		for _, o := range e.obligs {
			if len(o.Tags) > 0 && !hasTag(o.Tags, *prop) {
				also := false
				for _, at := range ps.AlsoTags {
					if hasTag(o.Tags, at) {
						also = true
					}
				}
				if !also {
					continue
				}
			}
			if len(o.Tags) == 0 && len(ps.Kinds) > 0 {
				ok := false
				for _, k := range ps.Kinds {
					if k == o.Kind {
						ok = true
					}
				}
				if !ok {
					continue
				}
			}
			obs = append(obs, o)
		}
	}
	if len(obs) == 0 {
		fmt.Printf("UNDECIDED property=%s reason=%q\n", *prop, "no obligations were generated (vacuous check)")
		return 2
	}

	// ---- discharge
	quickT, longT := 15, 60
	cross := false
	if *tier == "thorough" {
		quickT, longT = 60, 180
		cross = true
	}
	solveAll := func(list []*Oblig, timeout int, cross bool, prefer string) {
		var wg sync.WaitGroup
		sem := make(chan struct{}, 16)
		for i, o := range list {
			wg.Add(1)
			sem <- struct{}{}
			go func(i int, o *Oblig) {
				defer wg.Done()
				defer func() { <-sem }()
				if o.Cond.T == "true" && !o.IsCover {
					o.Result = &SolveResult{Status: "unsat", Backend: "trivial"}
					return
				}
				file := filepath.Join(workdir, fmt.Sprintf("%x.smt2", sha256.Sum256([]byte(o.Name)))[:40]+".smt2")
				o.Result = Solve(o.Query(timeout*1000), file, timeout, cross, prefer)
			}(i, o)
		}
		wg.Wait()
	}
	// obligations of units with a `split` clause first get a short symbolic attempt
	var plain, splittable []*Oblig
	for _, o := range obs {
		if splitFuncs[o.Func] != nil || splitLemmas[o.Func] != nil {
			splittable = append(splittable, o)
		} else {
			plain = append(plain, o)
		}
	}
	solveAll(plain, quickT, cross, "")
	solveAll(splittable, 4, false, "")
	// case split for what the symbolic attempt did not decide
	needSplit := map[string]map[string]bool{} // unit -> base obligation names
	for _, o := range splittable {
		if !o.ok() && o.Result.Status != "sat" {
			if needSplit[o.Func] == nil {
				needSplit[o.Func] = map[string]bool{}
			}
			needSplit[o.Func][o.Name] = true
		}
	}
	if len(needSplit) > 0 {
		var cases []*Oblig
		var units []string
		for u := range needSplit {
			units = append(units, u)
		}
		sort.Strings(units)
		for _, u := range units {
			var lo, hi int
			if fn := splitFuncs[u]; fn != nil {
				fc := p.CS.Funcs[funcKey(fn)]
				lo, hi = fc.Split.Lo, fc.Split.Hi
			} else {
				lo, hi = splitLemmas[u].Split.Lo, splitLemmas[u].Split.Hi
			}
			for v := lo; v <= hi; v++ {
				vv := v
				var e *Enc
				if fn := splitFuncs[u]; fn != nil {
					e = p.VerifyFunction(fn, p.CS.Funcs[funcKey(fn)], &vv, false)
				} else {
					e = p.VerifyLemma(splitLemmas[u], &vv)
				}
				if e.failed != nil {
					fmt.Printf("UNDECIDED property=%s reason=%q\n", *prop, e.failed.Error())
					return 2
				}
				suffix := fmt.Sprintf("[%s=%d]", e.splitVar, v)
				for _, o := range e.obligs {
					if needSplit[u][strings.TrimSuffix(o.Name, suffix)] {
						cases = append(cases, o)
					}
				}
			}
		}
		solveAll(cases, quickT, cross, "cvc5")
		// replace the undecided symbolic obligations by their cases
		var nobs []*Oblig
		for _, o := range obs {
			if needSplit[o.Func] != nil && needSplit[o.Func][o.Name] {
				continue
			}
			nobs = append(nobs, o)
		}
		obs = append(nobs, cases...)
	}
	var retry []*Oblig
	for _, o := range obs {
		if !o.ok() && o.Result.Status != "sat" {
			if o.IsCover {
				// a reachability query: `unsat` is already decided, and one the solvers could not
				// settle (models of quantified facts) rarely is by a longer run - it is not a verdict
				continue
			}
			retry = append(retry, o)
		}
	}
	if len(retry) > 0 {
		solveAll(retry, longT, false, "")
	}

	// ---- report
	discharged := 0
	byBackend := map[string]int{}
	solverSeconds := 0.0
	var failing []*Oblig
	for _, o := range obs {
		if o.Result != nil {
			solverSeconds += o.Result.Seconds
		}
		if o.ok() {
			discharged++
			byBackend[o.Result.Backend]++
		} else {
			failing = append(failing, o)
		}
	}
	violations := 0
	coverUndecided := 0
	knownHit := map[int]bool{}
	replayDir := filepath.Join(*verif, "replays", *prop)
	os.RemoveAll(replayDir)
	for _, o := range failing {
		if o.IsCover {
			// vacuity: reported as a broken check, not as a property violation. Only a definite
			// `unsat` counts: with quantified facts the solvers often cannot produce a model.
			if o.Result.Status == "unsat" {
				if coverExpectedUnreachable(o.Name) {
					continue
				}
				fmt.Printf("VACUOUS property=%s obligation=%q (a precondition/invariant is unsatisfiable or a return is unreachable)\n", *prop, o.Name)
				violations++
			} else {
				coverUndecided++
			}
			continue
		}
		if ki := matchKnown(known, *prop, o.Name); ki >= 0 {
			// a listed finding suppresses only its own input class: outside the carve-out the
			// obligation must still be discharged, otherwise this is a different violation
			if known[ki].CarveOut == "" || p.holdsOutsideCarveOut(o, known[ki].CarveOut, workdir, longT) {
				knownHit[ki] = true
				continue
			}
		}
		violations++
		os.MkdirAll(replayDir, 0o755)
		rp := p.replay(o, replayDir, *repo, *verif, workdir)
		suffix := ""
		if !rp.Reproduced {
			suffix = " no-failing-input-found"
		}
		fmt.Printf("VIOLATION property=%s replay=%s obligation=%q status=%s%s\n", *prop, rp.Path, o.Name, o.Result.Status, suffix)
		if *verbose {
			fmt.Printf("  at %s\n", o.Pos)
		}
	}
	for i, k := range known {
		if k.Property != *prop || k.Status != "open" {
			continue
		}
		if knownHit[i] {
			fmt.Printf("KNOWN-FINDING: property=%s %s [%s]\n", *prop, k.What, k.Obligation)
		} else {
			fmt.Fprintf(os.Stderr, "note: known finding %q no longer reproduces (obligation %s is discharged or absent)\n", k.What, k.Obligation)
		}
	}
	wall := time.Since(t0).Seconds()
	if !*noEvidence {
		// obligations covered by a listed finding were re-proved outside its carve-out
		knownObs := 0
		for _, o := range failing {
			if ki := matchKnown(known, *prop, o.Name); ki >= 0 && knownHit[ki] && !o.IsCover {
				knownObs++
			}
		}
		byBackend["proved-outside-known-finding-carve-out"] = knownObs
		if knownObs == 0 {
			delete(byBackend, "proved-outside-known-finding-carve-out")
		}
		writeEvidence(p, *prop, *tier, seed, *verif, encs, obs, discharged+knownObs, byBackend, solverSeconds, violations, known, knownHit, wall)
	}
	if coverUndecided > 0 {
		fmt.Fprintf(os.Stderr, "note: %d cover queries undecided (no model found within the timeout)\n", coverUndecided)
	}
	if *verbose || violations > 0 {
		fmt.Fprintf(os.Stderr, "%s: %d obligations, %d discharged, %d failing (%d known), %.1fs\n", *prop, len(obs), discharged, len(failing), len(knownHit), wall)
	}
	if *verbose {
		for _, o := range obs {
			st := "?"
			if o.Result != nil {
				st = o.Result.Status + "/" + o.Result.Backend + fmt.Sprintf("/%.2fs", o.Result.Seconds)
			}
			fmt.Fprintf(os.Stderr, "  %-8s %s  %s\n", st, o.Name, o.Pos)
		}
	}
	if violations > 0 {
		return 1
	}
	return 0
}

func (o *Oblig) ok() bool {
	if o.Result == nil {
		return false
	}
	if o.IsCover {
		return o.Result.Status == "sat"
	}
	return o.Result.Status == "unsat"
}

func matchKnown(known []KnownFinding, prop, name string) int {
	for i, k := range known {
		if k.Property != prop || k.Status != "open" {
			continue
		}
		if k.Obligation == name {
			return i
		}
		if strings.HasSuffix(k.Obligation, "*") && strings.HasPrefix(name, strings.TrimSuffix(k.Obligation, "*")) {
			return i
		}
	}
	return -1
}

func (p *Prog) lookupInterfaceMethod(key string) (string, bool) {
	// key like (pkg/path.Iface).Method
	if !strings.HasPrefix(key, "(") {
		return "", false
	}
	end := strings.Index(key, ")")
	recv := strings.TrimPrefix(key[1:end], "*")
	i := strings.LastIndex(recv, ".")
	if i < 0 {
		return "", false
	}
	pk := p.Pkgs[recv[:i]]
	if pk == nil {
		return "", false
	}
	obj := pk.Types.Scope().Lookup(recv[i+1:])
	if obj == nil {
		return "", false
	}
	if _, ok := obj.Type().Underlying().(interface{ NumMethods() int }); ok {
		return key, true
	}
	return "", false
}

var _ = ssa.NaiveForm

// holdsOutsideCarveOut re-proves a refuted obligation under the negation of the carve-out.
func (p *Prog) holdsOutsideCarveOut(o *Oblig, carve string, workdir string, timeout int) bool {
	e := o.Enc
	if e == nil || e.Fn == nil {
		return false
	}
	sx, err := parseSpecExpr(carve)
	if err != nil {
		fmt.Fprintf(os.Stderr, "known finding carve-out %q: %v\n", carve, err)
		return false
	}
	bind := map[string]TV{}
	for _, prm := range e.Fn.Params {
		bind[prm.Name()] = TV{Val: Val{"p_" + mangle(prm.Name()), p.W.SortOf(prm.Type())}, Ty: prm.Type()}
	}
	var spec *SpecFile
	if e.FC != nil {
		spec = e.FC.Spec
	}
	nf := len(e.facts)
	ec := &EvalCtx{e: e, st: e.entry, old: e.entry, bind: bind, spec: spec}
	cv, err := ec.evalBool(sx)
	if err != nil {
		fmt.Fprintf(os.Stderr, "known finding carve-out %q: %v\n", carve, err)
		return false
	}
	q := o.queryAllDecls(nf)
	q = strings.Replace(q, "(check-sat)\n", "(assert "+Not(cv).T+")\n(check-sat)\n", 1)
	file := filepath.Join(workdir, fmt.Sprintf("carve-%x.smt2", hashStr(o.Name)))
	res := Solve(q, file, timeout, false, "")
	return res.Status == "unsat"
}

// coverExpectedUnreachable: returns that the contracts make unreachable on purpose
// (defensive error paths whose condition is excluded by a precondition) are listed in
// /verif/contracts/unreachable.txt, one obligation-name prefix per line.
var unreachableList []string

func coverExpectedUnreachable(name string) bool {
	if unreachableList == nil {
		unreachableList = []string{""}
		if b, err := os.ReadFile("/verif/contracts/unreachable.txt"); err == nil {
			for _, l := range strings.Split(string(b), "\n") {
				l = strings.TrimSpace(l)
				if l != "" && !strings.HasPrefix(l, "#") {
					unreachableList = append(unreachableList, l)
				}
			}
		}
	}
	// an entry names one cover obligation exactly; a trailing * makes it a prefix
	for _, p := range unreachableList[1:] {
		if p == name || (strings.HasSuffix(p, "*") && strings.HasPrefix(name, strings.TrimSuffix(p, "*"))) {
			return true
		}
	}
	return false
}
