package main

// Encoding of function bodies: blocks, loops, instructions.

import (
	"fmt"
	"go/constant"
	"go/token"
	"go/types"
	"os"
	"sort"
	"strings"

	"golang.org/x/tools/go/ssa"
)

type retInfo struct {
	st      *State
	results []Val
	instr   *ssa.Return
}

func isBackEdge(from, to *ssa.BasicBlock) bool {
	return to.Dominates(from)
}

func findLoops(fn *ssa.Function) map[*ssa.BasicBlock]*loopInfo {
	loops := map[*ssa.BasicBlock]*loopInfo{}
	for _, b := range fn.Blocks {
		for _, s := range b.Succs {
			if isBackEdge(b, s) {
				li := loops[s]
				if li == nil {
					li = &loopInfo{head: s, body: map[*ssa.BasicBlock]bool{s: true}}
					loops[s] = li
				}
				// natural loop: nodes reaching b without passing through s
				var stack []*ssa.BasicBlock
				if !li.body[b] {
					li.body[b] = true
					stack = append(stack, b)
				}
				for len(stack) > 0 {
					x := stack[len(stack)-1]
					stack = stack[:len(stack)-1]
					for _, p := range x.Preds {
						if !li.body[p] {
							li.body[p] = true
							stack = append(stack, p)
						}
					}
				}
			}
		}
	}
	var heads []*ssa.BasicBlock
	for h := range loops {
		heads = append(heads, h)
	}
	sort.Slice(heads, func(i, j int) bool { return loopPos(heads[i]) < loopPos(heads[j]) })
	for i, h := range heads {
		loops[h].ordinal = i + 1
	}
	return loops
}

// loopPos orders loops by source position (falls back to block index).
func loopPos(b *ssa.BasicBlock) int {
	min := token.Pos(0)
	for _, in := range b.Instrs {
		if p := in.Pos(); p.IsValid() && (min == 0 || p < min) {
			min = p
		}
	}
	if min == 0 {
		return 1<<40 + b.Index
	}
	return int(min)
}

func rpo(fn *ssa.Function) []*ssa.BasicBlock {
	seen := map[*ssa.BasicBlock]bool{}
	var post []*ssa.BasicBlock
	var dfs func(b *ssa.BasicBlock)
	dfs = func(b *ssa.BasicBlock) {
		seen[b] = true
		for _, s := range b.Succs {
			if !seen[s] && !isBackEdge(b, s) {
				dfs(s)
			}
		}
		post = append(post, b)
	}
	dfs(fn.Blocks[0])
	// true topological order on the DAG (back edges removed): use Kahn to be safe
	indeg := map[*ssa.BasicBlock]int{}
	for _, b := range post {
		for _, s := range b.Succs {
			if !isBackEdge(b, s) && seen[s] {
				indeg[s]++
			}
		}
	}
	var order []*ssa.BasicBlock
	var ready []*ssa.BasicBlock
	ready = append(ready, fn.Blocks[0])
	for len(ready) > 0 {
		sort.Slice(ready, func(i, j int) bool { return ready[i].Index < ready[j].Index })
		b := ready[0]
		ready = ready[1:]
		order = append(order, b)
		for _, s := range b.Succs {
			if !isBackEdge(b, s) && seen[s] {
				indeg[s]--
				if indeg[s] == 0 {
					ready = append(ready, s)
				}
			}
		}
	}
	return order
}

// encodeBody symbolically executes fn from state st with the given argument
// values and returns the list of return points.
func (e *Enc) encodeBody(fr *Frame, st *State, args []Val, freeVars []Val) []retInfo {
	fn := fr.fn
	if fn.Blocks == nil {
		e.failed = fmt.Errorf("%s: function %s has no body", e.Unit, fn)
		return nil
	}
	if fn.Recover != nil {
		e.abstractions["recover block ignored in "+fn.String()] = true
	}
	fr.loops = findLoops(fn)
	for _, li := range fr.loops {
		if fr.fc != nil {
			li.spec = fr.fc.Loops[li.ordinal]
		}
	}
	for i, p := range fn.Params {
		fr.vals[p] = args[i]
		fr.params[p.Name()] = args[i]
	}
	for i, fv := range fn.FreeVars {
		fr.vals[fv] = freeVars[i]
	}
	out := map[*ssa.BasicBlock][]edgeState{}
	var rets []retInfo
	order := rpo(fn)
	for _, b := range order {
		var cur *State
		if b == fn.Blocks[0] {
			cur = st
		} else {
			edges := out[b]
			if len(edges) == 0 {
				continue // unreachable
			}
			cur = e.merge(edges, fmt.Sprintf("b%d", b.Index))
		}
		if li := fr.loops[b]; li != nil {
			cur = e.enterLoop(fr, li, cur)
		}
		if e.failed != nil {
			return nil
		}
		e.encodeBlock(fr, b, cur, out, &rets)
		if e.failed != nil {
			return nil
		}
	}
	return rets
}

func (e *Enc) enterLoop(fr *Frame, li *loopInfo, pre *State) *State {
	ec := e.evalCtx(fr, pre)
	ec.loopPre = pre
	ec.loopIdx = rangeIndexAlloc(li)
	label := fmt.Sprintf("%sloop%d", fr.prefix, li.ordinal)
	// invariants hold on entry
	if li.spec != nil {
		for i, inv := range li.spec.Invariants {
			budget := conjBudget
			cs, err := ec.evalConjuncts(inv.Expr, &budget)
			if err != nil {
				e.failed = fmt.Errorf("%s:%d: %v", inv.File, inv.Line, err)
				return pre
			}
			lab := inv.Label
			if lab == "" {
				lab = fmt.Sprintf("%d", i+1)
			}
			for ci, c := range cs {
				e.oblig(pre, "inv-entry", label+":"+lab+conjSuffix(ci), c, li.head.Instrs[0].Pos(), inv.Tags, inv)
			}
			// checked above (piecewise); kept, as one fact, as a lemma about the pre-loop state
			if whole, err := ec.evalBool(inv.Expr); err == nil {
				e.assume(pre, whole)
			}
		}
	}
	// termination: range loops over a slice or map evaluate their operand once and are finite;
	// any other loop needs a decreases clause or a stated assumption
	if cm := li.head.Comment; cm != "rangeindex.loop" && cm != "rangeiter.loop" {
		hasDecr := li.spec != nil && li.spec.Decreases != nil
		reason := ""
		if fr.fc != nil {
			reason = fr.fc.LoopsAssumedToTerminate[li.ordinal]
		}
		if reason != "" {
			e.assumedUsed[fmt.Sprintf("loop %d of %s%s is assumed to terminate / meant to run forever: %s", li.ordinal, fr.prefix, e.Unit, reason)] = true
		} else if !hasDecr {
			e.oblig(pre, "termination", label+":no-decreases-clause", False, li.head.Instrs[0].Pos(), nil, nil)
		}
	}
	li.preSt = pre
	head := pre.clone()
	e.epochCounter++
	headEpoch := &lazyEpoch{id: e.epochCounter, names: map[string]bool{}}
	head.epochs = append(head.epochs, headEpoch)
	// havoc what the loop body may modify
	mod := e.loopModSet(fr, li)
	head.reach = e.fresh("r_"+label, SBool)
	e.fact(Implies(head.reach, pre.reach))
	for _, a := range sortedAllocs(mod.cells) {
		if _, ok := pre.cells[a]; !ok {
			continue
		}
		t := a.Type().(*types.Pointer).Elem()
		v := e.fresh("lh_"+a.Comment, e.P.W.SortOf(t))
		head.cells[a] = v
	}
	// validity of havocked cells is assumed after next is havocked
	// heaps that the body itself may write at objects that existed before the loop (writes that only
	// initialise objects allocated inside the loop cannot touch preserved state)
	direct := map[string]bool{}
	for n := range mod.heaps {
		if mod.nonFresh[n] || !strings.HasPrefix(n, "H_") {
			direct[n] = true
		}
	}
	if mod.allHeaps {
		// lock ownership is only changed by the sync primitives (listed explicitly in modifies clauses)
		for n := range e.base {
			if !strings.HasPrefix(n, "G_held") && !strings.HasPrefix(n, "G_rheld") {
				mod.heaps[n] = true
			}
		}
		for n := range pre.heaps {
			if !strings.HasPrefix(n, "G_held") && !strings.HasPrefix(n, "G_rheld") {
				mod.heaps[n] = true
			}
		}
		headEpoch.all = true
	}
	if mod.allScalar {
		for n := range e.base {
			if strings.HasPrefix(n, "H_") {
				mod.heaps[n] = true
			}
		}
		for n := range pre.heaps {
			if strings.HasPrefix(n, "H_") {
				mod.heaps[n] = true
			}
		}
		headEpoch.scalar = true
	}
	var hns []string
	for n := range mod.heaps {
		hns = append(hns, n)
	}
	sort.Strings(hns)
	for _, n := range hns {
		old, ok := pre.heaps[n]
		if !ok {
			old, ok = e.base[n]
			if !ok {
				headEpoch.names[n] = true
				continue
			}
		}
		head.heaps[n] = e.fresh(n+"_lh", old.S)
	}
	if mod.allScalar {
		// a callee of the body writes scalar state that could not be resolved: nothing in the scalar
		// heaps counts as untouched
		for _, n := range hns {
			if strings.HasPrefix(n, "H_") {
				direct[n] = true
			}
		}
	}
	// a map that the body may modify is not iterated "each key exactly once"
	if mod.allHeaps || mod.heaps["ML"] {
		for it := range mod.iters {
			if e.iterUnstable == nil {
				e.iterUnstable = map[ssa.Value]bool{}
			}
			e.iterUnstable[it] = true
		}
	}
	if os.Getenv("GOVC_DEBUG_SCALAR") != "" {
		var dn []string
		for n := range direct {
			dn = append(dn, n)
		}
		sort.Strings(dn)
		fmt.Fprintf(os.Stderr, "loop %s of %s: directly written heaps %v allHeaps=%v\n", label, e.Unit, dn, mod.allHeaps)
	}
	if mod.allHeaps && len(e.preserved)+len(e.deferredPres) > 0 {
		// what unbounded-frame calls cannot reach, and the body does not write itself, survives the loop
		e.applyPreserved(pre, head, direct)
	}
	if mod.allocs || mod.allHeaps {
		nn := e.fresh("next_lh", SInt)
		e.fact(Val{app("<=", pre.next.T, nn.T), SBool})
		head.next = nn
	}
	for _, it := range sortedValues(mod.iters) {
		if old, ok := pre.iters[it]; ok {
			head.iters[it] = e.fresh("it_lh", old.S)
		}
		if _, ok := pre.iterN[it]; ok {
			if head.iterN == nil {
				head.iterN = map[ssa.Value]Val{}
			}
			head.iterN[it] = e.fresh("itn_lh", BVSort(64))
		}
	}
	for _, a := range sortedAllocs(mod.cells) {
		if v, ok := head.cells[a]; ok {
			e.assumeValid(head, v, a.Type().(*types.Pointer).Elem())
		}
	}
	for _, n := range hns {
		if h, ok := head.heaps[n]; ok && strings.HasPrefix(n, "H_") {
			e.heapWF(h, head.next)
		}
	}
	li.headSt = head.clone()
	// automatic invariant for range-over-slice loops: -1 <= idx < len
	e.autoRangeInvariant(fr, li, head)
	if li.spec != nil {
		hc := e.evalCtx(fr, head)
		hc.loopPre = pre
		hc.loopIdx = rangeIndexAlloc(li)
		for _, inv := range li.spec.Invariants {
			c, err := hc.evalBool(inv.Expr)
			if err != nil {
				e.failed = fmt.Errorf("%s:%d: %v", inv.File, inv.Line, err)
				return head
			}
			e.assume(head, c)
		}
		if li.spec.Decreases != nil {
			d, err := hc.eval(li.spec.Decreases.Expr)
			if err != nil {
				e.failed = fmt.Errorf("%s:%d: %v", li.spec.Decreases.File, li.spec.Decreases.Line, err)
				return head
			}
			li.decr0 = d.Val
			li.hasDecr = true
		}
	}
	return head
}

// autoRangeInvariant: SSA lowers `for i := range s` to an index cell starting
// at -1 and a length computed before the loop. The invariant -1 <= idx < len
// (with len >= 0) always holds at the head.
func (e *Enc) autoRangeInvariant(fr *Frame, li *loopInfo, head *State) {
	// pattern: head: t1 = *idx; t2 = t1 + 1; *idx = t2; t3 = t2 < len; if t3
	b := li.head
	if len(b.Instrs) < 5 {
		return
	}
	ld, ok := b.Instrs[0].(*ssa.UnOp)
	if !ok || ld.Op != token.MUL {
		return
	}
	a, ok := ld.X.(*ssa.Alloc)
	if !ok || a.Comment != "rangeindex" {
		return
	}
	var cmp *ssa.BinOp
	for _, in := range b.Instrs {
		if bo, ok := in.(*ssa.BinOp); ok && bo.Op == token.LSS {
			cmp = bo
		}
	}
	if cmp == nil {
		return
	}
	lenV, ok := fr.vals[cmp.Y]
	if !ok {
		return
	}
	idx := e.cellGet(head, a)
	e.assume(head, And(BVCmp("bvsge", idx, BVBigInt(64, -1)), BVCmp("bvslt", idx, lenV), BVCmp("bvsge", lenV, BV(64, 0))))
}

// rangeIndexAlloc: the hidden index cell of a `for … range slice` loop (nil for other loops).
func rangeIndexAlloc(li *loopInfo) *ssa.Alloc {
	if li == nil || li.head == nil || len(li.head.Instrs) == 0 {
		return nil
	}
	ld, ok := li.head.Instrs[0].(*ssa.UnOp)
	if !ok || ld.Op != token.MUL {
		return nil
	}
	a, ok := ld.X.(*ssa.Alloc)
	if !ok || a.Comment != "rangeindex" {
		return nil
	}
	return a
}

func BVBigInt(n int, x int64) Val {
	if x >= 0 {
		return BV(n, uint64(x))
	}
	return BV(n, uint64(x)) // two's complement for 64-bit
}

func (e *Enc) backEdge(fr *Frame, li *loopInfo, st *State, pos token.Pos) {
	label := fmt.Sprintf("%sloop%d", fr.prefix, li.ordinal)
	if li.spec != nil {
		ec := e.evalCtx(fr, st)
		ec.loopPre = li.preSt
		ec.loopIdx = rangeIndexAlloc(li)
		for i, inv := range li.spec.Invariants {
			budget := conjBudget
			cs, err := ec.evalConjuncts(inv.Expr, &budget)
			if err != nil {
				e.failed = fmt.Errorf("%s:%d: %v", inv.File, inv.Line, err)
				return
			}
			lab := inv.Label
			if lab == "" {
				lab = fmt.Sprintf("%d", i+1)
			}
			for ci, c := range cs {
				e.oblig(st, "inv-preserve", label+":"+lab+conjSuffix(ci), c, pos, inv.Tags, inv)
			}
		}
		if li.hasDecr {
			d, err := ec.eval(li.spec.Decreases.Expr)
			if err == nil {
				c := And(BVCmp("bvslt", d.Val, li.decr0), BVCmp("bvsge", li.decr0, BV(64, 0)))
				e.oblig(st, "decreases", label, c, pos, li.spec.Decreases.Tags, li.spec.Decreases)
			}
		}
	}
}

func (e *Enc) encodeBlock(fr *Frame, b *ssa.BasicBlock, st *State, out map[*ssa.BasicBlock][]edgeState, rets *[]retInfo) {
	for _, in := range b.Instrs {
		if e.failed != nil {
			return
		}
		switch in := in.(type) {
		case *ssa.If:
			c := fr.vals[in.Cond]
			if cc, ok := in.Cond.(*ssa.Const); ok {
				c = e.constVal(cc)
			}
			e.edge(fr, b, b.Succs[0], st, c, out, in.Pos())
			e.edge(fr, b, b.Succs[1], st, Not(c), out, in.Pos())
			return
		case *ssa.Jump:
			e.edge(fr, b, b.Succs[0], st, True, out, in.Pos())
			return
		case *ssa.Return:
			var rs []Val
			for _, r := range in.Results {
				rs = append(rs, e.val(fr, st, r))
			}
			*rets = append(*rets, retInfo{st: st, results: rs, instr: in})
			return
		case *ssa.Panic:
			e.oblig(st, "safety", e.siteLabel(fr, "panic", in.Pos()), False, in.Pos(), nil, nil)
			return
		default:
			e.instr(fr, st, in)
		}
	}
}

func (e *Enc) edge(fr *Frame, from, to *ssa.BasicBlock, st *State, cond Val, out map[*ssa.BasicBlock][]edgeState, pos token.Pos) {
	r := And(st.reach, cond)
	if isBackEdge(from, to) {
		li := fr.loops[to]
		bs := st.clone()
		bs.reach = e.name("r_back", r)
		e.backEdge(fr, li, bs, pos)
		return
	}
	es := st.clone()
	rn := e.name("r_e", r)
	fr.edgeR[[2]*ssa.BasicBlock{from, to}] = rn
	out[to] = append(out[to], edgeState{cond: rn, st: es})
}

// val returns the SMT value of an SSA value in the current frame.
func (e *Enc) val(fr *Frame, st *State, v ssa.Value) Val {
	switch v := v.(type) {
	case *ssa.Const:
		return e.constVal(v)
	case *ssa.Function:
		return MkFunc(IntLit(int64(e.P.W.FuncID(funcKey(v)))), NilLoc)
	case *ssa.Global:
		return e.globalLoc(v)
	case *ssa.Builtin:
		return NilFunc
	}
	if x, ok := fr.vals[v]; ok {
		return x
	}
	if _, ok := fr.lrefs[v]; ok {
		e.failed = fmt.Errorf("%s: address of non-escaping local %s used as a value", e.Unit, v.Name())
		return NilLoc
	}
	e.failed = fmt.Errorf("%s: no value for %s (%T) in %s", e.Unit, v.Name(), v, fr.fn)
	return Val{"?", e.P.W.SortOf(v.Type())}
}

func (e *Enc) globalLoc(g *ssa.Global) Val {
	name := "g_" + mangle(g.Pkg.Pkg.Path()+"."+g.Name())
	c := e.declare(name, SInt)
	if !e.declSet["gfact_"+name] {
		e.declSet["gfact_"+name] = true
		// globals are distinct allocated objects: refs are negative-free small ids
		id := e.P.W.FuncID("global:" + g.Pkg.Pkg.Path() + "." + g.Name())
		e.fact(Eq(c, IntLit(int64(1000+id))))
	}
	return MkLoc(c, BV(64, 0), PNil)
}

const firstDynamicRef = 1000000

func (e *Enc) constVal(c *ssa.Const) Val {
	w := e.P.W
	t := c.Type()
	if c.Value == nil {
		return w.ZeroOf(t)
	}
	switch u := t.Underlying().(type) {
	case *types.Basic:
		switch {
		case u.Info()&types.IsBoolean != 0:
			if constant.BoolVal(c.Value) {
				return True
			}
			return False
		case u.Info()&types.IsInteger != 0:
			n, _ := intWidth(u)
			if i, ok := constant.Int64Val(constant.ToInt(c.Value)); ok {
				return BV(n, uint64(i))
			}
			if ui, ok := constant.Uint64Val(constant.ToInt(c.Value)); ok {
				return BV(n, ui)
			}
		case u.Info()&types.IsString != 0:
			return w.StrLit(constant.StringVal(c.Value))
		case u.Info()&types.IsFloat != 0:
			name := "f64_" + mangle(c.Value.ExactString())
			w.Uninterp(name, nil, SF64)
			return Val{name, SF64}
		}
	}
	e.failed = fmt.Errorf("%s: unsupported constant %s", e.Unit, c)
	return Val{"?", w.SortOf(t)}
}

func funcKey(f *ssa.Function) string {
	if f.Object() != nil {
		if fo, ok := f.Object().(*types.Func); ok {
			return fo.FullName()
		}
	}
	if f.Pkg != nil {
		return f.Pkg.Pkg.Path() + "." + f.Name()
	}
	if f.Parent() != nil {
		return funcKey(f.Parent()) + "$" + f.Name()
	}
	return f.String()
}

// ---------------------------------------------------------------------------
// instructions

func (e *Enc) instr(fr *Frame, st *State, in ssa.Instruction) {
	w := e.P.W
	switch in := in.(type) {
	case *ssa.DebugRef:
		return
	case *ssa.Alloc:
		t := in.Type().(*types.Pointer).Elem()
		if !in.Heap {
			st.cells[in] = w.ZeroOf(t)
			fr.lrefs[in] = &LocalRef{A: in}
			return
		}
		loc := e.alloc(st, in.Comment)
		e.initZero(st, loc, t)
		e.initGhost(st, loc, t, 0)
		fr.vals[in] = loc
	case *ssa.Store:
		t := in.Val.Type()
		if lr, ok := fr.lrefs[in.Addr]; ok {
			e.lrefStore(st, lr, e.val(fr, st, in.Val))
			return
		}
		if g, ok := in.Addr.(*ssa.Global); ok && !e.initUnit {
			if _, imm := e.P.CS.ImmGlobals[g.Pkg.Pkg.Path()+"."+g.Name()]; imm {
				e.oblig(st, "frame", e.siteLabel(fr, "write-to-immutable-global:"+g.Name(), in.Pos()), False, in.Pos(), nil, nil)
			}
		}
		p := e.val(fr, st, in.Addr)
		e.check(st, "safety", e.siteLabel(fr, "nil-deref-store", in.Pos()), Not(Eq(LRef(p), IntLit(0))), in.Pos())
		e.guardAccess(fr, st, in.Addr, true, in.Pos())
		e.store(st, p, e.val(fr, st, in.Val), t)
	case *ssa.UnOp:
		e.unop(fr, st, in)
	case *ssa.BinOp:
		fr.vals[in] = e.name(in.Name(), e.binop(fr, st, in))
	case *ssa.FieldAddr:
		pt := in.X.Type().Underlying().(*types.Pointer).Elem()
		if lr, ok := fr.lrefs[in.X]; ok {
			fr.lrefs[in] = &LocalRef{A: lr.A, Path: append(append([]lstep{}, lr.Path...), lstep{field: in.Field, typ: pt})}
			return
		}
		p := e.val(fr, st, in.X)
		e.check(st, "safety", e.siteLabel(fr, "nil-deref", in.Pos()), Not(Eq(LRef(p), IntLit(0))), in.Pos())
		si := w.StructOf(pt)
		fr.vals[in] = e.name(in.Name(), FieldLoc(p, si.Fields[in.Field].FID))
	case *ssa.Field:
		x := e.val(fr, st, in.X)
		si := w.StructOf(in.X.Type())
		f := si.Fields[in.Field]
		fr.vals[in] = Val{app(f.Sel, x.T), f.Sort}
	case *ssa.IndexAddr:
		idx := e.toInt64(e.val(fr, st, in.Index), in.Index.Type())
		switch xt := in.X.Type().Underlying().(type) {
		case *types.Slice:
			s := e.val(fr, st, in.X)
			e.check(st, "safety", e.siteLabel(fr, "index", in.Pos()), And(BVCmp("bvsge", idx, BV(64, 0)), BVCmp("bvslt", idx, SLen(s))), in.Pos())
			fr.vals[in] = e.name(in.Name(), ElemLoc(SBase(s), idx))
		case *types.Pointer:
			arr := xt.Elem().Underlying().(*types.Array)
			n := BV(64, uint64(arr.Len()))
			if lr, ok := fr.lrefs[in.X]; ok {
				e.check(st, "safety", e.siteLabel(fr, "index", in.Pos()), And(BVCmp("bvsge", idx, BV(64, 0)), BVCmp("bvslt", idx, n)), in.Pos())
				fr.lrefs[in] = &LocalRef{A: lr.A, Path: append(append([]lstep{}, lr.Path...), lstep{field: -1, idx: idx, typ: xt.Elem()})}
				return
			}
			p := e.val(fr, st, in.X)
			e.check(st, "safety", e.siteLabel(fr, "nil-deref", in.Pos()), Not(Eq(LRef(p), IntLit(0))), in.Pos())
			e.check(st, "safety", e.siteLabel(fr, "index", in.Pos()), And(BVCmp("bvsge", idx, BV(64, 0)), BVCmp("bvslt", idx, n)), in.Pos())
			fr.vals[in] = e.name(in.Name(), ElemLoc(p, idx))
		default:
			e.failed = fmt.Errorf("%s: IndexAddr on %s", e.Unit, in.X.Type())
		}
	case *ssa.Index:
		idx := e.toInt64(e.val(fr, st, in.Index), in.Index.Type())
		x := e.val(fr, st, in.X)
		switch xt := in.X.Type().Underlying().(type) {
		case *types.Array:
			e.check(st, "safety", e.siteLabel(fr, "index", in.Pos()), And(BVCmp("bvsge", idx, BV(64, 0)), BVCmp("bvslt", idx, BV(64, uint64(xt.Len())))), in.Pos())
			fr.vals[in] = Select(x, idx)
		case *types.Basic: // string
			e.check(st, "safety", e.siteLabel(fr, "index", in.Pos()), And(BVCmp("bvsge", idx, BV(64, 0)), BVCmp("bvslt", idx, StrLen(x))), in.Pos())
			f := w.Uninterp("str_at", []Sort{SStr, BVSort(64)}, BVSort(8))
			fr.vals[in] = Val{app(f, x.T, idx.T), BVSort(8)}
		default:
			e.failed = fmt.Errorf("%s: Index on %s", e.Unit, in.X.Type())
		}
	case *ssa.Slice:
		e.sliceInstr(fr, st, in)
	case *ssa.ChangeType:
		e.changeType(fr, st, in)
	case *ssa.Convert:
		e.convert(fr, st, in)
	case *ssa.MultiConvert:
		e.failed = fmt.Errorf("%s: MultiConvert unsupported", e.Unit)
	case *ssa.ChangeInterface:
		fr.vals[in] = e.val(fr, st, in.X)
	case *ssa.MakeInterface:
		fr.vals[in] = e.makeInterface(st, e.val(fr, st, in.X), in.X.Type())
	case *ssa.TypeAssert:
		e.typeAssert(fr, st, in)
	case *ssa.Extract:
		tup, ok := fr.tuples[in.Tuple]
		if !ok {
			e.failed = fmt.Errorf("%s: extract from unknown tuple %s", e.Unit, in.Tuple.Name())
			return
		}
		fr.vals[in] = tup[in.Index]
	case *ssa.Phi:
		// only produced for short-circuit boolean expressions in naive form
		var v Val
		first := true
		for i, edge := range in.Edges {
			pred := in.Block().Preds[i]
			ev := e.val(fr, st, edge)
			if first {
				v = ev
				first = false
				continue
			}
			// condition: came from pred. We recorded edge reach per pred in phiConds.
			c := e.phiCond(fr, pred, in.Block())
			v = Ite(c, ev, v)
		}
		fr.vals[in] = e.name(in.Name(), v)
	case *ssa.MakeSlice:
		e.makeSlice(fr, st, in)
	case *ssa.MakeMap:
		e.makeMap(fr, st, in)
	case *ssa.MakeChan:
		r := st.next
		nn := e.fresh("next", SInt)
		e.fact(Eq(nn, Val{app("+", st.next.T, "1"), SInt}))
		st.next = nn
		fr.vals[in] = r
	case *ssa.MakeClosure:
		fn := in.Fn.(*ssa.Function)
		env := e.alloc(st, "closure")
		for i, b := range in.Bindings {
			bv := e.val(fr, st, b)
			e.store(st, FieldLoc(env, w.GhostFieldID(fmt.Sprintf("$bind%d", i))), bv, b.Type())
		}
		fr.vals[in] = MkFunc(IntLit(int64(w.FuncID(funcKey(fn)))), env)
	case *ssa.Lookup:
		e.lookup(fr, st, in)
	case *ssa.MapUpdate:
		e.mapUpdate(fr, st, in)
	case *ssa.Range:
		e.rangeInstr(fr, st, in)
	case *ssa.Next:
		e.nextInstr(fr, st, in)
	case *ssa.Call:
		res := e.call(fr, st, in.Common(), in, in.Pos())
		e.bindResults(fr, in, res)
	case *ssa.Defer:
		d := deferred{instr: in}
		c := in.Common()
		if !c.IsInvoke() {
			if _, isB := c.Value.(*ssa.Builtin); !isB {
				if _, isF := c.Value.(*ssa.Function); !isF {
					d.fnVal = e.val(fr, st, c.Value)
				}
			}
		} else {
			d.fnVal = e.val(fr, st, c.Value)
		}
		for _, a := range c.Args {
			if lr, ok := fr.lrefs[a]; ok {
				d.recv = lr
				d.args = append(d.args, NilLoc)
				continue
			}
			d.args = append(d.args, e.val(fr, st, a))
		}
		st.defers = append(st.defers, d)
	case *ssa.RunDefers:
		ds := st.defers
		st.defers = nil
		for i := len(ds) - 1; i >= 0; i-- {
			d := ds[i]
			if d.guard.T == "" || d.guard.T == "true" {
				e.callWithArgs(fr, st, d.instr.Common(), d.instr, d.instr.Pos(), d.fnVal, d.args)
				continue
			}
			// conditionally deferred call: run it on a copy under its guard, then merge
			yes := st.clone()
			yes.reach = e.name("r_defer", And(st.reach, d.guard))
			e.callWithArgs(fr, yes, d.instr.Common(), d.instr, d.instr.Pos(), d.fnVal, d.args)
			no := st.clone()
			no.reach = e.name("r_nodefer", And(st.reach, Not(d.guard)))
			m := e.merge([]edgeState{{cond: yes.reach, st: yes}, {cond: no.reach, st: no}}, "defer")
			reach := st.reach
			*st = *m
			st.reach = reach
			st.defers = nil
		}
	case *ssa.Go:
		e.goStmt(fr, st, in)
	case *ssa.Send:
		e.abstractions["channel send (no effect modelled)"] = true
	case *ssa.Select:
		e.abstractions["select (results unconstrained)"] = true
		var tup []Val
		tt := in.Type().(*types.Tuple)
		for i := 0; i < tt.Len(); i++ {
			tup = append(tup, e.fresh("sel", w.SortOf(tt.At(i).Type())))
		}
		fr.tuples[in] = tup
	case *ssa.SliceToArrayPointer:
		e.failed = fmt.Errorf("%s: SliceToArrayPointer unsupported", e.Unit)
	default:
		e.failed = fmt.Errorf("%s: unsupported instruction %T: %s", e.Unit, in, in)
	}
}

func (e *Enc) bindResults(fr *Frame, in *ssa.Call, res []Val) {
	if e.failed != nil {
		return
	}
	if tt, ok := in.Type().(*types.Tuple); ok {
		if tt.Len() != len(res) {
			e.failed = fmt.Errorf("%s: call %s result arity %d vs %d", e.Unit, in, tt.Len(), len(res))
			return
		}
		fr.tuples[in] = res
		return
	}
	if len(res) == 1 {
		fr.vals[in] = res[0]
	}
}

// phiCond: condition under which control reached `to` from `pred` (recorded by edge()).
func (e *Enc) phiCond(fr *Frame, pred, to *ssa.BasicBlock) Val {
	if r, ok := fr.edgeR[[2]*ssa.BasicBlock{pred, to}]; ok {
		return r
	}
	return False
}

func (e *Enc) toInt64(v Val, t types.Type) Val {
	wd := v.S.BVWidth()
	if wd == 64 {
		return v
	}
	if isSigned(t) {
		return SExt(64, v)
	}
	return ZExt(64, v)
}

func (e *Enc) unop(fr *Frame, st *State, in *ssa.UnOp) {
	w := e.P.W
	switch in.Op {
	case token.MUL: // load
		t := in.Type()
		if lr, ok := fr.lrefs[in.X]; ok {
			fr.vals[in] = e.name(in.Name(), e.lrefLoad(st, lr))
			return
		}
		if g, ok := in.X.(*ssa.Global); ok {
			if e.initUnit && g.Name() == "init$guard" {
				fr.vals[in] = False // the initialiser is verified for its first (only effective) run
				return
			}
			if v, ok := e.immGlobal(g); ok {
				fr.vals[in] = v
				return
			}
		}
		p := e.val(fr, st, in.X)
		e.check(st, "safety", e.siteLabel(fr, "nil-deref", in.Pos()), Not(Eq(LRef(p), IntLit(0))), in.Pos())
		e.guardAccess(fr, st, in.X, false, in.Pos())
		v := e.name(in.Name(), e.load(st, p, t))
		e.assumeValid(st, v, t)
		fr.vals[in] = v
	case token.NOT:
		fr.vals[in] = Not(e.val(fr, st, in.X))
	case token.SUB:
		x := e.val(fr, st, in.X)
		if x.S.IsBV() {
			fr.vals[in] = Val{app("bvneg", x.T), x.S}
		} else {
			fr.vals[in] = e.fresh("fneg", x.S)
		}
	case token.XOR:
		x := e.val(fr, st, in.X)
		fr.vals[in] = Val{app("bvnot", x.T), x.S}
	case token.ARROW:
		e.abstractions["channel receive (value unconstrained)"] = true
		if in.CommaOk {
			tt := in.Type().(*types.Tuple)
			v := e.fresh("recv", w.SortOf(tt.At(0).Type()))
			e.assumeValid(st, v, tt.At(0).Type())
			fr.tuples[in] = []Val{v, e.fresh("recvok", SBool)}
		} else {
			v := e.fresh("recv", w.SortOf(in.Type()))
			e.assumeValid(st, v, in.Type())
			fr.vals[in] = v
		}
	default:
		e.failed = fmt.Errorf("%s: unsupported unop %s", e.Unit, in.Op)
	}
}

func (e *Enc) binop(fr *Frame, st *State, in *ssa.BinOp) Val {
	x := e.val(fr, st, in.X)
	y := e.val(fr, st, in.Y)
	xt := in.X.Type()
	return e.binopVals(fr, st, in.Op, x, y, xt, in.Y.Type(), in.Pos())
}

func (e *Enc) binopVals(fr *Frame, st *State, op token.Token, x, y Val, xt, yt types.Type, pos token.Pos) Val {
	w := e.P.W
	signed := isSigned(xt)
	switch op {
	case token.EQL, token.NEQ:
		var r Val
		switch {
		case x.S == SStr:
			r = e.strEq(x, y)
		case x.S == SIface:
			r = e.ifaceEq(x, y)
		case x.S == SSlice:
			// only comparison with nil is legal
			if y.T == "nilslice" {
				r = Eq(LRef(SBase(x)), IntLit(0))
			} else if x.T == "nilslice" {
				r = Eq(LRef(SBase(y)), IntLit(0))
			} else {
				r = Eq(x, y)
			}
		case x.S == SFunc:
			if y.T == "nilfunc" {
				r = Eq(FnID(x), IntLit(0))
			} else if x.T == "nilfunc" {
				r = Eq(FnID(y), IntLit(0))
			} else {
				r = Eq(x, y)
			}
		default:
			r = Eq(x, y)
		}
		if op == token.NEQ {
			return Not(r)
		}
		return r
	}
	if x.S == SStr {
		switch op {
		case token.ADD:
			f := w.Uninterp("str_cat", []Sort{SStr, SStr}, SStr)
			r := e.name("cat", Val{app(f, x.T, y.T), SStr})
			e.fact(Eq(StrLen(r), BVOp("bvadd", StrLen(x), StrLen(y))))
			return r
		case token.LSS, token.LEQ, token.GTR, token.GEQ:
			f := w.Uninterp("str_lt", []Sort{SStr, SStr}, SBool)
			switch op {
			case token.LSS:
				return Val{app(f, x.T, y.T), SBool}
			case token.GTR:
				return Val{app(f, y.T, x.T), SBool}
			case token.LEQ:
				return Not(Val{app(f, y.T, x.T), SBool})
			default:
				return Not(Val{app(f, x.T, y.T), SBool})
			}
		}
	}
	if x.S == SBool {
		switch op {
		case token.AND, token.LAND:
			return And(x, y)
		case token.OR, token.LOR:
			return Or(x, y)
		}
	}
	if x.S == SF64 {
		e.abstractions["floating-point arithmetic (uninterpreted)"] = true
		switch op {
		case token.LSS, token.LEQ, token.GTR, token.GEQ:
			return e.fresh("fcmp", SBool)
		}
		return e.fresh("fop", SF64)
	}
	if !x.S.IsBV() {
		e.failed = fmt.Errorf("%s: binop %s on sort %s", e.Unit, op, x.S)
		return x
	}
	n := x.S.BVWidth()
	switch op {
	case token.ADD:
		return BVOp("bvadd", x, y)
	case token.SUB:
		return BVOp("bvsub", x, y)
	case token.MUL:
		return BVOp("bvmul", x, y)
	case token.QUO, token.REM:
		e.check(st, "safety", e.siteLabel(fr, "div-by-zero", pos), Not(Eq(y, BV(n, 0))), pos)
		if op == token.QUO {
			if signed {
				return BVOp("bvsdiv", x, y)
			}
			return BVOp("bvudiv", x, y)
		}
		if signed {
			return BVOp("bvsrem", x, y)
		}
		return BVOp("bvurem", x, y)
	case token.AND:
		return BVOp("bvand", x, y)
	case token.OR:
		return BVOp("bvor", x, y)
	case token.XOR:
		return BVOp("bvxor", x, y)
	case token.AND_NOT:
		return BVOp("bvand", x, Val{app("bvnot", y.T), y.S})
	case token.SHL, token.SHR:
		ysigned := isSigned(yt)
		if ysigned {
			e.check(st, "safety", e.siteLabel(fr, "negative-shift", pos), BVCmp("bvsge", y, BV(y.S.BVWidth(), 0)), pos)
		}
		return shiftVal(op == token.SHL, signed, x, y)
	case token.LSS, token.LEQ, token.GTR, token.GEQ:
		var o string
		switch op {
		case token.LSS:
			o = "lt"
		case token.LEQ:
			o = "le"
		case token.GTR:
			o = "gt"
		case token.GEQ:
			o = "ge"
		}
		if signed {
			return BVCmp("bvs"+o, x, y)
		}
		return BVCmp("bvu"+o, x, y)
	}
	e.failed = fmt.Errorf("%s: unsupported binop %s", e.Unit, op)
	return x
}

// shiftVal implements Go shift semantics (count >= width gives 0 or sign fill).
func shiftVal(left, signed bool, x, y Val) Val {
	n := x.S.BVWidth()
	yw := y.S.BVWidth()
	// compare the count in its own width
	tooBig := BVCmp("bvuge", y, BV(yw, uint64(n)))
	var yy Val
	if yw >= n {
		yy = Extract(n-1, 0, y)
	} else {
		yy = ZExt(n, y)
	}
	if yw < 8 && n >= 256 {
		tooBig = False
	}
	if left {
		return Ite(tooBig, BV(n, 0), BVOp("bvshl", x, yy))
	}
	if signed {
		return Ite(tooBig, BVOp("bvashr", x, BV(n, uint64(n-1))), BVOp("bvashr", x, yy))
	}
	return Ite(tooBig, BV(n, 0), BVOp("bvlshr", x, yy))
}

func (e *Enc) strEq(x, y Val) Val {
	if x.T == "str_empty" {
		return Eq(StrLen(y), BV(64, 0))
	}
	if y.T == "str_empty" {
		return Eq(StrLen(x), BV(64, 0))
	}
	return Eq(x, y)
}

func (e *Enc) ifaceEq(x, y Val) Val {
	if x.T == "niliface" {
		return Eq(ITyp(y), IntLit(0))
	}
	if y.T == "niliface" {
		return Eq(ITyp(x), IntLit(0))
	}
	// Interfaces holding pointers compare by identity. Boxed non-pointer
	// payloads compare by value in Go: identical boxes are equal, otherwise
	// the result is left unconstrained unless the dynamic types differ.
	r := e.fresh("ifeq", SBool)
	isPtr := Val{app(e.P.W.Uninterp("tag_is_pointer", []Sort{SInt}, SBool), ITyp(x).T), SBool}
	e.fact(Implies(Eq(x, y), r))
	e.fact(Implies(Not(Eq(ITyp(x), ITyp(y))), Not(r)))
	e.fact(Implies(And(isPtr, Not(Eq(x, y))), Not(r)))
	return r
}

func (e *Enc) sliceInstr(fr *Frame, st *State, in *ssa.Slice) {
	w := e.P.W
	zero := BV(64, 0)
	get := func(v ssa.Value, def Val) Val {
		if v == nil {
			return def
		}
		return e.toInt64(e.val(fr, st, v), v.Type())
	}
	switch xt := in.X.Type().Underlying().(type) {
	case *types.Slice:
		s := e.val(fr, st, in.X)
		lo := get(in.Low, zero)
		hi := get(in.High, SLen(s))
		mx := get(in.Max, SCap(s))
		cond := And(BVCmp("bvsle", zero, lo), BVCmp("bvsle", lo, hi), BVCmp("bvsle", hi, mx), BVCmp("bvsle", mx, SCap(s)))
		e.check(st, "safety", e.siteLabel(fr, "slice-bounds", in.Pos()), cond, in.Pos())
		r := MkSlice(ElemLoc(SBase(s), lo), BVOp("bvsub", hi, lo), BVOp("bvsub", mx, lo))
		// slicing a nil slice yields nil
		r = Ite(Eq(LRef(SBase(s)), IntLit(0)), NilSlice, r)
		fr.vals[in] = e.name(in.Name(), r)
	case *types.Basic: // string
		s := e.val(fr, st, in.X)
		lo := get(in.Low, zero)
		hi := get(in.High, StrLen(s))
		cond := And(BVCmp("bvsle", zero, lo), BVCmp("bvsle", lo, hi), BVCmp("bvsle", hi, StrLen(s)))
		e.check(st, "safety", e.siteLabel(fr, "slice-bounds", in.Pos()), cond, in.Pos())
		f := w.Uninterp("str_sub", []Sort{SStr, BVSort(64), BVSort(64)}, SStr)
		r := e.name(in.Name(), Val{app(f, s.T, lo.T, hi.T), SStr})
		e.fact(Eq(StrLen(r), BVOp("bvsub", hi, lo)))
		e.fact(Implies(And(Eq(lo, zero), Eq(hi, StrLen(s))), Eq(r, s)))
		fr.vals[in] = r
	case *types.Pointer:
		arr := xt.Elem().Underlying().(*types.Array)
		n := BV(64, uint64(arr.Len()))
		p := e.val(fr, st, in.X)
		e.check(st, "safety", e.siteLabel(fr, "nil-deref", in.Pos()), Not(Eq(LRef(p), IntLit(0))), in.Pos())
		lo := get(in.Low, zero)
		hi := get(in.High, n)
		mx := get(in.Max, n)
		cond := And(BVCmp("bvsle", zero, lo), BVCmp("bvsle", lo, hi), BVCmp("bvsle", hi, mx), BVCmp("bvsle", mx, n))
		e.check(st, "safety", e.siteLabel(fr, "slice-bounds", in.Pos()), cond, in.Pos())
		fr.vals[in] = e.name(in.Name(), MkSlice(ElemLoc(p, lo), BVOp("bvsub", hi, lo), BVOp("bvsub", mx, lo)))
	default:
		e.failed = fmt.Errorf("%s: slice of %s", e.Unit, in.X.Type())
	}
}

func (e *Enc) changeType(fr *Frame, st *State, in *ssa.ChangeType) {
	x := e.val(fr, st, in.X)
	// struct -> struct of a different named type: rebuild
	if _, ok := in.Type().Underlying().(*types.Struct); ok {
		from := e.P.W.StructOf(in.X.Type())
		to := e.P.W.StructOf(in.Type())
		if from != to {
			var as []string
			for _, f := range from.Fields {
				as = append(as, app(f.Sel, x.T))
			}
			if len(as) == 0 {
				fr.vals[in] = Val{to.Ctor, Sort(to.Name)}
			} else {
				fr.vals[in] = Val{app(to.Ctor, as...), Sort(to.Name)}
			}
			return
		}
	}
	// function -> named function type carrying a type contract
	if _, ok := in.Type().Underlying().(*types.Signature); ok {
		e.funcTypeConversion(fr, st, in, x)
	}
	fr.vals[in] = x
}

func (e *Enc) convert(fr *Frame, st *State, in *ssa.Convert) {
	w := e.P.W
	x := e.val(fr, st, in.X)
	from, to := in.X.Type().Underlying(), in.Type().Underlying()
	fb, fIsB := from.(*types.Basic)
	tb, tIsB := to.(*types.Basic)
	switch {
	case fIsB && tIsB && fb.Info()&types.IsInteger != 0 && tb.Info()&types.IsInteger != 0:
		tw, _ := intWidth(tb)
		_, fs := intWidth(fb)
		if fs {
			fr.vals[in] = SExt(tw, x)
		} else {
			fr.vals[in] = ZExt(tw, x)
		}
	case tIsB && tb.Info()&types.IsString != 0:
		switch {
		case fIsB && fb.Info()&types.IsInteger != 0:
			f := w.Uninterp("str_of_rune", []Sort{BVSort(64)}, SStr)
			fr.vals[in] = Val{app(f, e.toInt64(x, in.X.Type()).T), SStr}
		default: // []byte / []rune -> string: function of the contents
			fr.vals[in] = e.bytesToString(st, x)
		}
	case fIsB && fb.Info()&types.IsString != 0:
		// string -> []byte: fresh array whose contents are a function of the string
		loc := e.alloc(st, "strbytes")
		ln := StrLen(x)
		sl := MkSlice(loc, ln, ln)
		f := w.Uninterp("str_at", []Sort{SStr, BVSort(64)}, BVSort(8))
		hn, h := e.scalarHeap(st, BVSort(8))
		nh := e.fresh(hn, h.S)
		l := Val{"l!", SLoc}
		in2 := e.inRange(l, loc, ln, nil)
		body := Eq(Select(nh, l), Ite(in2, Val{app(f, x.T, LIdx(l).T), BVSort(8)}, Select(h, l)))
		e.fact(quant("forall", []Val{l}, body, []string{Select(nh, l).T}))
		st.heaps[hn] = nh
		fr.vals[in] = sl
	case fIsB && tIsB && (fb.Info()&types.IsFloat != 0 || tb.Info()&types.IsFloat != 0):
		e.abstractions["float conversion (unconstrained)"] = true
		fr.vals[in] = e.fresh("fconv", w.SortOf(in.Type()))
	case fIsB && fb.Kind() == types.UnsafePointer, tIsB && tb.Kind() == types.UnsafePointer:
		e.abstractions["unsafe.Pointer conversion (identity)"] = true
		fr.vals[in] = x
	default:
		e.failed = fmt.Errorf("%s: unsupported conversion %s -> %s", e.Unit, in.X.Type(), in.Type())
	}
}

// bytesToString: string(b) is a function of the byte contents; modelled as an
// uninterpreted function of (heap, base, len) - two conversions of slices with
// identical contents in the same heap give the same string.
func (e *Enc) bytesToString(st *State, s Val) Val {
	w := e.P.W
	_, h := e.scalarHeap(st, BVSort(8))
	f := w.Uninterp("str_of_bytes", []Sort{h.S, SLoc, BVSort(64)}, SStr)
	r := e.name("str", Val{app(f, h.T, SBase(s).T, SLen(s).T), SStr})
	e.fact(Eq(StrLen(r), SLen(s)))
	return r
}

func isPointerShaped(t types.Type) bool {
	switch t.Underlying().(type) {
	case *types.Pointer:
		return true
	}
	return false
}

func (e *Enc) makeInterface(st *State, x Val, t types.Type) Val {
	w := e.P.W
	tag := IntLit(int64(w.TypeTag(t)))
	isPtr := Val{app(w.Uninterp("tag_is_pointer", []Sort{SInt}, SBool), tag.T), SBool}
	if isPointerShaped(t) {
		e.fact(isPtr)
		return MkIface(tag, x)
	}
	e.fact(Not(isPtr))
	box := e.alloc(st, "box")
	e.boxStore(box, x, t)
	return MkIface(tag, box)
}

// Boxes (non-pointer values held in interfaces) are immutable in Go: their contents
// live in write-once arrays B_<sort> that no store or havoc can reach.
func (e *Enc) boxArray(s Sort) Val {
	return e.declare("B_"+mangle(string(s)), ArraySort(SLoc, s))
}

func (e *Enc) boxStore(loc, v Val, t types.Type) {
	w := e.P.W
	switch u := t.Underlying().(type) {
	case *types.Struct:
		si := w.StructOf(t)
		for _, f := range si.Fields {
			e.boxStore(FieldLoc(loc, f.FID), Val{app(f.Sel, v.T), f.Sort}, f.Type)
		}
		return
	case *types.Array:
		if u.Len() <= 32 {
			for i := int64(0); i < u.Len(); i++ {
				e.boxStore(ElemLoc(loc, BV(64, uint64(i))), Select(v, BV(64, uint64(i))), u.Elem())
			}
		}
		return
	}
	e.fact(Eq(Select(e.boxArray(w.SortOf(t)), loc), v))
}

func (e *Enc) boxLoad(loc Val, t types.Type) Val {
	w := e.P.W
	switch u := t.Underlying().(type) {
	case *types.Struct:
		si := w.StructOf(t)
		if len(si.Fields) == 0 {
			return Val{si.Ctor, Sort(si.Name)}
		}
		var as []string
		for _, f := range si.Fields {
			as = append(as, e.boxLoad(FieldLoc(loc, f.FID), f.Type).T)
		}
		return Val{app(si.Ctor, as...), Sort(si.Name)}
	case *types.Array:
		es := w.SortOf(u.Elem())
		as := ArraySort(BVSort(64), es)
		arr := Val{fmt.Sprintf("((as const %s) %s)", as, w.ZeroOf(u.Elem()).T), as}
		if u.Len() <= 32 {
			for i := int64(0); i < u.Len(); i++ {
				arr = Store(arr, BV(64, uint64(i)), e.boxLoad(ElemLoc(loc, BV(64, uint64(i))), u.Elem()))
			}
			return arr
		}
		return e.fresh("boxarr", as)
	}
	return Select(e.boxArray(w.SortOf(t)), loc)
}

func (e *Enc) unbox(st *State, i Val, t types.Type) Val {
	if isPointerShaped(t) {
		return IVal(i)
	}
	return e.boxLoad(IVal(i), t)
}

func (e *Enc) typeAssert(fr *Frame, st *State, in *ssa.TypeAssert) {
	w := e.P.W
	x := e.val(fr, st, in.X)
	var ok, v Val
	if _, isIface := in.AssertedType.Underlying().(*types.Interface); isIface {
		f := w.Uninterp("implements", []Sort{SInt, SInt}, SBool)
		ok = And(Not(Eq(ITyp(x), IntLit(0))), Val{app(f, ITyp(x).T, IntLit(int64(w.TypeTag(in.AssertedType))).T), SBool})
		// a value statically of an interface type that embeds/equals the target always implements it
		if types.Implements(in.X.Type(), in.AssertedType.Underlying().(*types.Interface)) {
			ok = Not(Eq(ITyp(x), IntLit(0)))
		}
		v = x
	} else {
		ok = Eq(ITyp(x), IntLit(int64(w.TypeTag(in.AssertedType))))
		v = e.unbox(st, x, in.AssertedType)
	}
	if in.CommaOk {
		ok = e.name("taok", ok)
		res := Ite(ok, v, w.ZeroOf(in.AssertedType))
		fr.tuples[in] = []Val{e.name(in.Name(), res), ok}
		return
	}
	e.check(st, "safety", e.siteLabel(fr, "type-assert", in.Pos()), ok, in.Pos())
	vv := e.name(in.Name(), v)
	e.assumeValid(st, vv, in.AssertedType)
	fr.vals[in] = vv
}

func (e *Enc) makeSlice(fr *Frame, st *State, in *ssa.MakeSlice) {
	ln := e.toInt64(e.val(fr, st, in.Len), in.Len.Type())
	cp := e.toInt64(e.val(fr, st, in.Cap), in.Cap.Type())
	e.check(st, "safety", e.siteLabel(fr, "makeslice-len", in.Pos()), And(BVCmp("bvsge", ln, BV(64, 0)), BVCmp("bvsle", ln, cp)), in.Pos())
	loc := e.alloc(st, "make")
	elem := in.Type().Underlying().(*types.Slice).Elem()
	e.zeroRange(st, loc, cp, elem)
	fr.vals[in] = MkSlice(loc, ln, cp)
}

// immGlobal returns the fixed value of a global declared immutable (written only
// by its package initialiser, which is verified to establish the init-ensures
// clauses assumed here).
func (e *Enc) immGlobal(g *ssa.Global) (Val, bool) {
	key := g.Pkg.Pkg.Path() + "." + g.Name()
	if _, imm := e.P.CS.ImmGlobals[key]; !imm || e.initUnit {
		return Val{}, false
	}
	t := g.Type().(*types.Pointer).Elem()
	name := "gv_" + mangle(key)
	first := !e.declSet[name]
	v := e.declare(name, e.P.W.SortOf(t))
	if first {
		st0 := e.entry
		if st0 != nil {
			for _, f := range e.validFacts(st0, v, t, 0) {
				e.fact(f)
			}
		}
		pkg := g.Pkg.Pkg.Path()
		e.contractsUsed[pkg+".init"] = true
		if !strings.HasPrefix(pkg, e.P.ModPath) {
			e.assumedUsed["init-ensures of external package "+pkg+" and immutability of "+g.Name()] = true
		}
		// machine-checked frame condition: nothing outside the package initialiser writes the global
		for _, w := range e.P.writersOf(g) {
			e.oblig(e.entry, "frame", "immutable-global-written:"+g.Name()+" in "+w, False, g.Pos(), nil, nil)
		}
		if !e.initFactsDone[pkg] {
			e.initFactsDone[pkg] = true
			// declare all immutable globals of the package first, then assume the init-ensures clauses
			for _, cl := range e.P.CS.InitEnsures[pkg] {
				ec := &EvalCtx{e: e, st: e.entry, old: e.entry, bind: map[string]TV{}, spec: e.P.CS.InitSpec[pkg]}
				c, err := ec.evalBool(cl.Expr)
				if err != nil {
					e.failed = fmt.Errorf("%s:%d: %v", cl.File, cl.Line, err)
					return v, true
				}
				e.fact(c)
			}
		}
	}
	return v, true
}

// writersOf lists the functions of the module (other than package initialisers) that store to g.
func (p *Prog) writersOf(g *ssa.Global) []string {
	if p.gwriters == nil {
		p.gwriters = map[*ssa.Global][]string{}
		for key, fn := range p.funcs {
			if fn.Synthetic != "" && fn.Name() == "init" {
				continue
			}
			for _, b := range fn.Blocks {
				for _, in := range b.Instrs {
					if s, ok := in.(*ssa.Store); ok {
						if gg, ok := s.Addr.(*ssa.Global); ok {
							p.gwriters[gg] = append(p.gwriters[gg], shortenKey(key))
						}
					}
				}
			}
		}
		for g := range p.gwriters {
			sort.Strings(p.gwriters[g])
		}
	}
	return p.gwriters[g]
}

// writersOfKey: like writersOf, by global key "pkg/path.Name".
func (p *Prog) writersOfKey(key string) []string {
	i := strings.LastIndex(key, ".")
	sp := p.SSA.ImportedPackage(key[:i])
	if sp == nil {
		return nil
	}
	g, ok := sp.Members[key[i+1:]].(*ssa.Global)
	if !ok {
		return []string{"<unknown global " + key + ">"}
	}
	return p.writersOf(g)
}

// deterministic iteration orders (the text of the queries must not depend on map order)
func sortedAllocs(m map[*ssa.Alloc]bool) []*ssa.Alloc {
	var out []*ssa.Alloc
	for a := range m {
		out = append(out, a)
	}
	sort.Slice(out, func(i, j int) bool {
		if out[i].Parent() != out[j].Parent() {
			return out[i].Parent().String() < out[j].Parent().String()
		}
		if out[i].Pos() != out[j].Pos() {
			return out[i].Pos() < out[j].Pos()
		}
		return out[i].Name() < out[j].Name()
	})
	return out
}

func sortedValues(m map[ssa.Value]bool) []ssa.Value {
	var out []ssa.Value
	for v := range m {
		out = append(out, v)
	}
	sort.Slice(out, func(i, j int) bool {
		if out[i].Pos() != out[j].Pos() {
			return out[i].Pos() < out[j].Pos()
		}
		return out[i].Name() < out[j].Name()
	})
	return out
}

// a clause is checked conjunct by conjunct (evalConjuncts): smaller queries, and a failure names
// the conjunct. conjBudget bounds the number of pieces per clause.
const conjBudget = 24

func conjSuffix(i int) string {
	if i == 0 {
		return ""
	}
	return fmt.Sprintf(".c%d", i+1)
}
