package main

// Top-level verification of functions against their contracts, and of lemmas.

import (
	"fmt"
	"go/token"
	"go/types"
	"sort"
	"strings"

	"golang.org/x/tools/go/ssa"
)

func unitName(fn *ssa.Function) string {
	key := funcKey(fn)
	return shortenKey(key)
}

// shortenKey turns "(*github.com/x/y/bitmap.Allocator).Free" into "bitmap.(*Allocator).Free".
func shortenKey(key string) string {
	if strings.HasPrefix(key, "(") {
		end := strings.Index(key, ")")
		recv := key[1:end]
		star := ""
		if strings.HasPrefix(recv, "*") {
			star = "*"
			recv = recv[1:]
		}
		i := strings.LastIndex(recv, "/")
		recv = recv[i+1:]
		j := strings.Index(recv, ".")
		if j >= 0 {
			return recv[:j] + ".(" + star + recv[j+1:] + ")" + key[end+1:]
		}
		return "(" + star + recv + ")" + key[end+1:]
	}
	i := strings.LastIndex(key, "/")
	return key[i+1:]
}

func (p *Prog) newEntryState(e *Enc) *State {
	st := &State{reach: True, cells: map[*ssa.Alloc]Val{}, heaps: map[string]Val{}, iters: map[ssa.Value]Val{}}
	st.next = e.declare("next_0", SInt)
	e.fact(Val{app("<=", fmt.Sprint(firstDynamicRef), "next_0"), SBool})
	return st
}

// typeContractBind binds the parameter names of a function-type contract to the
// positional arguments of an implementing function.
func typeContractBind(e *Enc, key string, args []Val, fn *ssa.Function) (map[string]TV, *types.Signature) {
	i := strings.LastIndex(key, ".")
	pkg := e.P.Pkgs[key[:i]]
	if pkg == nil {
		return nil, nil
	}
	tn, ok := pkg.Types.Scope().Lookup(key[i+1:]).(*types.TypeName)
	if !ok {
		return nil, nil
	}
	sig, ok := tn.Type().Underlying().(*types.Signature)
	if !ok {
		return nil, nil
	}
	bind := map[string]TV{}
	off := 0
	if fn.Signature.Recv() != nil {
		off = 1
	}
	for k := 0; k < sig.Params().Len(); k++ {
		p := sig.Params().At(k)
		tv := TV{Val: args[off+k], Ty: p.Type()}
		if p.Name() != "" && p.Name() != "_" {
			bind[p.Name()] = tv
		}
		bind[fmt.Sprintf("arg%d", k)] = tv
	}
	return bind, sig
}

// selfFuncVal is the function value under which a handler is known to callers.
func (e *Enc) selfFuncVal(fn *ssa.Function, args []Val, freeVars []Val) Val {
	id := IntLit(int64(e.P.W.FuncID(funcKey(fn))))
	return MkFunc(id, NilLoc)
}

func (p *Prog) VerifyFunction(fn *ssa.Function, fc *FuncContract, split *int, wantCover bool) *Enc {
	e := NewEnc(p, unitName(fn))
	e.Fn = fn
	e.FC = fc
	if fc != nil {
		for _, r := range fc.Reveals {
			if _, ok := p.CS.SpecFuncs[r]; !ok {
				e.failed = fmt.Errorf("%s: reveal of unknown spec function %s", e.Unit, r)
				return e
			}
			e.revealed[r] = true
		}
	}
	if split != nil {
		e.hasSplit = true
		e.splitVar = fc.Split.Var
		e.splitVal = *split
	}
	defer func() {
		if r := recover(); r != nil {
			e.failed = fmt.Errorf("%s: internal error: %v", e.Unit, r)
		}
	}()
	st := p.newEntryState(e)
	e.entry = st.clone()
	e.initUnit = fn.Name() == "init" && fn.Synthetic != ""
	fr := &Frame{fn: fn, vals: map[ssa.Value]Val{}, tuples: map[ssa.Value][]Val{}, lrefs: map[ssa.Value]*LocalRef{},
		params: map[string]Val{}, fc: fc, edgeR: map[[2]*ssa.BasicBlock]Val{}}
	var args []Val
	pbind := map[string]TV{}
	for _, prm := range fn.Params {
		v := e.declare("p_"+mangle(prm.Name()), p.W.SortOf(prm.Type()))
		e.assumeValid(st, v, prm.Type())
		args = append(args, v)
		pbind[prm.Name()] = TV{Val: v, Ty: prm.Type()}
	}
	if fn.Signature.Recv() != nil && len(fn.Params) > 0 {
		pbind["self"] = pbind[fn.Params[0].Name()]
	}
	if e.hasSplit {
		// the split expression (a parameter or any entry-state expression) is fixed to the case value
		sx, err := parseSpecExpr(e.splitVar)
		if err != nil {
			e.failed = fmt.Errorf("%s: bad split expression: %v", e.Unit, err)
			return e
		}
		ec := &EvalCtx{e: e, st: st, old: st, bind: pbind, spec: fc.Spec}
		sv, err := ec.eval(sx)
		if err != nil {
			e.failed = fmt.Errorf("%s: split expression: %v", e.Unit, err)
			return e
		}
		e.fact(Eq(sv.Val, BVBigInt(sv.S.BVWidth(), int64(e.splitVal))))
	}
	var fvs []Val
	for _, fv := range fn.FreeVars {
		v := e.declare("fv_"+mangle(fv.Name()), p.W.SortOf(fv.Type()))
		e.assumeValid(st, v, fv.Type())
		if v.S == SLoc {
			e.fact(Not(Eq(LRef(v), IntLit(0)))) // captured variables are allocated cells
		}
		fvs = append(fvs, v)
		pbind[fv.Name()] = TV{Val: v, Ty: fv.Type()}
	}
	fr.oldSt = st.clone()
	// type contracts this function implements
	type tcInfo struct {
		fc   *FuncContract
		bind map[string]TV
		sig  *types.Signature
	}
	var tcs []tcInfo
	if fc != nil {
		for _, key := range fc.Implements {
			tfc, ok := p.CS.Types[key]
			if !ok {
				e.failed = fmt.Errorf("%s: implements unknown type contract %s", e.Unit, key)
				return e
			}
			b, sig := typeContractBind(e, key, args, fn)
			if b == nil {
				e.failed = fmt.Errorf("%s: cannot bind type contract %s", e.Unit, key)
				return e
			}
			b["self"] = TV{Val: e.declare("p_self_func", SFunc), Ty: nil}
			tcs = append(tcs, tcInfo{tfc, b, sig})
		}
	}
	// interface method contracts this method is checked against (behavioural refinement of the
	// postconditions; the interface-level ghost view of the receiver is read through `abstracts`)
	if fc != nil && len(fc.Refines) > 0 {
		if fn.Signature.Recv() == nil || len(args) == 0 {
			e.failed = fmt.Errorf("%s: refines on a function without receiver", e.Unit)
			return e
		}
		for _, ikey := range fc.Refines {
			mkey := "(" + ikey + ")." + fn.Name()
			tfc, ok := p.CS.Funcs[mkey]
			if !ok {
				e.failed = fmt.Errorf("%s: refines %s, but there is no contract for %s", e.Unit, ikey, mkey)
				return e
			}
			isig := p.interfaceMethodSig(ikey, fn.Name())
			if isig == nil || isig.Params().Len() != len(args)-1 {
				e.failed = fmt.Errorf("%s: cannot bind the interface method %s", e.Unit, mkey)
				return e
			}
			recvT := fn.Signature.Recv().Type()
			b := map[string]TV{}
			self := MkIface(IntLit(int64(p.W.TypeTag(recvT))), args[0])
			b["self"] = TV{Val: self, Ty: p.namedType(ikey)}
			for i := 0; i < isig.Params().Len(); i++ {
				prm := isig.Params().At(i)
				tv := TV{Val: args[i+1], Ty: prm.Type()}
				if prm.Name() != "" {
					b[prm.Name()] = tv
				}
				b[fmt.Sprintf("arg%d", i)] = tv
			}
			tcs = append(tcs, tcInfo{tfc, b, isig})
			e.absRecv = args[0]
			e.absRecvBoxed = IVal(self)
			e.absType = recvT.String()
		}
	}
	// assume preconditions
	assumeReq := func(cl *Clause, bind map[string]TV, spec *SpecFile) bool {
		ec := &EvalCtx{e: e, st: st, old: fr.oldSt, bind: bind, spec: spec}
		c, err := ec.evalBool(cl.Expr)
		if err != nil {
			e.failed = fmt.Errorf("%s:%d: %v", cl.File, cl.Line, err)
			return false
		}
		e.fact(c)
		return true
	}
	if fc != nil {
		for _, rq := range fc.Requires {
			if !assumeReq(rq, pbind, fc.Spec) {
				return e
			}
		}
	}
	for _, tc := range tcs {
		for _, rq := range tc.fc.Requires {
			if !assumeReq(rq, tc.bind, tc.fc.Spec) {
				return e
			}
		}
	}
	// lemmas this unit uses: forall params: requires ==> ensures (the lemma is proved as its own unit)
	if fc != nil {
		for _, ln := range fc.Uses {
			l := p.CS.Lemmas[ln]
			if l == nil {
				e.failed = fmt.Errorf("%s:%d: uses unknown lemma %s", fc.File, fc.Line, ln)
				return e
			}
			if err := e.assumeLemma(st, l); err != nil {
				e.failed = err
				return e
			}
		}
	}
	pkgPath := ""
	if fn.Pkg != nil {
		pkgPath = fn.Pkg.Pkg.Path()
	} else if fn.Parent() != nil && fn.Parent().Pkg != nil {
		pkgPath = fn.Parent().Pkg.Pkg.Path()
	}
	pinv := p.CS.PluginInv[pkgPath]
	isSetup := isSetupFunc(fn)
	if isSetup {
		// inductive invariants hold for the zero globals and are preserved by every successful setup
		for _, cl := range pinv {
			if hasTag(cl.Tags, "inductive") && hasTag(cl.Tags, fn.Name()) {
				if !assumeReq(cl, pbind, p.CS.InitSpec[pkgPath]) {
					return e
				}
				e.assumedUsed["inductive plugin invariant of "+pkgPath+" assumed at setup entry (holds for zero-valued globals)"] = true
			}
		}
	}
	var stableInv []*Clause
	if isSetup {
		// invariants scoped to other handlers of the package must be preserved by this setup
		for _, cl := range pinv {
			if sc := scopeTags(cl.Tags); len(sc) > 0 && !hasTag(cl.Tags, fn.Name()) && !hasTag(cl.Tags, "assumed") {
				if !assumeReq(cl, pbind, p.CS.InitSpec[pkgPath]) {
					return e
				}
				stableInv = append(stableInv, cl)
			}
		}
	}
	if len(tcs) > 0 {
		// handlers run after a successful setup: the plugin invariants hold
		for _, cl := range pinv {
			if len(scopeTags(cl.Tags)) > 0 && !hasTag(cl.Tags, fn.Name()) {
				continue // invariant scoped to other setup/handler functions
			}
			if !assumeReq(cl, pbind, p.CS.InitSpec[pkgPath]) {
				return e
			}
		}
	}
	// machine-checked frame condition behind that assumption: the globals are written only by the named functions
	if len(tcs) > 0 || isSetup {
		for gk, allowed := range p.CS.WrittenBy {
			if !strings.HasPrefix(gk, pkgPath+".") {
				continue
			}
			for _, w := range p.writersOfKey(gk) {
				ok := false
				for _, a := range allowed {
					if w == a || strings.HasSuffix(w, "."+a) {
						ok = true
					}
				}
				if !ok {
					e.oblig(st, "frame", "configuration-global-written:"+lastPart(gk)+" in "+w, False, fn.Pos(), nil, nil)
				}
			}
		}
	}
	if fc != nil {
		for _, pe := range fc.Preserves {
			ec := &EvalCtx{e: e, st: st, old: fr.oldSt, bind: pbind, spec: fc.Spec}
			t, err := ec.evalModTarget(pe)
			if err != nil && mentionsLocal(fn, pe) {
				// a local of the body: evaluated at each havoc, once the local exists
				e.deferredPres = append(e.deferredPres, deferredPreserve{expr: pe, fr: fr, bind: pbind, spec: fc.Spec})
				e.assumedUsed["preserves clause of "+e.Unit+": callees with an unbounded frame cannot reach "+specString(pe)] = true
				continue
			}
			if err != nil {
				e.failed = fmt.Errorf("%s:%d: preserves: %v", fc.File, fc.Line, err)
				return e
			}
			if t.kind != "loc" && t.kind != "elems" && t.kind != "map" && t.kind != "ghostvar" && t.kind != "ghostfield" {
				e.failed = fmt.Errorf("%s:%d: preserves: only *p, x.f, elems(s), mapc(m) and ghost variables are supported", fc.File, fc.Line)
				return e
			}
			e.preserved = append(e.preserved, t)
			e.assumedUsed["preserves clause of "+e.Unit+": callees with an unbounded frame cannot reach "+specString(pe)] = true
		}
	}
	if wantCover {
		o := e.oblig(st, "cover", "requires-satisfiable", True, fn.Pos(), nil, nil)
		o.IsCover = true
	}
	if fc != nil {
		for _, as := range fc.Asserts {
			as.Matched = 0
		}
	}
	rets := e.encodeBody(fr, st, args, fvs)
	if e.failed != nil {
		return e
	}
	if fc != nil {
		for _, as := range fc.Asserts {
			if as.Matched == 0 {
				// the call the assertion is keyed to is gone: the asserted fact is no longer established
				// anywhere, which is a failing obligation (the other obligations are still generated)
				lab := as.Clause.Label
				if lab == "" {
					lab = "keyed"
				}
				o := e.oblig(e.entry, "assert", lab+":no-call-matches:"+as.Key, False, fn.Pos(), as.Clause.Tags, as.Clause)
				o.Desc = fmt.Sprintf("%s:%d: assert before %q matches no call in %s any more", as.Clause.File, as.Clause.Line, as.Key, e.Unit)
			}
		}
	}
	for ri, r := range rets {
		rlabel := fmt.Sprintf("ret%d", ri+1)
		if x := p.exprAt(r.instr.Pos()); x != "" {
			rlabel = x
		}
		if wantCover {
			o := e.oblig(r.st, "cover", "reachable:"+rlabel, True, r.instr.Pos(), nil, nil)
			o.IsCover = true
		}
		check := func(cl *Clause, i int, bind map[string]TV, sig *types.Signature, spec *SpecFile, prefix string) bool {
			b := map[string]TV{}
			for k, v := range bind {
				b[k] = v
			}
			bindResults(b, sig, r.results)
			ec := &EvalCtx{e: e, st: r.st, old: fr.oldSt, fr: fr, bind: b, spec: spec, atReturn: true}
			budget := conjBudget
			cs, err := ec.evalConjuncts(cl.Expr, &budget)
			if err != nil {
				e.failed = fmt.Errorf("%s:%d: %v", cl.File, cl.Line, err)
				return false
			}
			lab := cl.Label
			if lab == "" {
				lab = fmt.Sprintf("%s%d", prefix, i+1)
			}
			for ci, c := range cs {
				e.oblig(r.st, "post", lab+conjSuffix(ci)+"@"+rlabel, c, r.instr.Pos(), cl.Tags, cl)
			}
			return true
		}
		if fc != nil && fc.Constructs != "" && len(r.results) > 0 && fn.Signature.Results().Len() > 0 {
			e.absRecv = r.results[0]
			e.absType = fn.Signature.Results().At(0).Type().String()
		}
		if fc != nil && !fc.TrustedPost {
			for i, en := range fc.Ensures {
				if hasTag(en.Tags, "trusted") {
					continue // assumed at call sites, recorded as an assumption there
				}
				if !check(en, i, pbind, fn.Signature, fc.Spec, "") {
					return e
				}
			}
		}
		if isSetup && len(r.results) == 2 {
			// a setup function that succeeds establishes the plugin invariants (C19)
			for i, cl := range pinv {
				if len(scopeTags(cl.Tags)) > 0 && !hasTag(cl.Tags, fn.Name()) {
					continue
				}
				ec := &EvalCtx{e: e, st: r.st, old: fr.oldSt, fr: fr, bind: map[string]TV{}, spec: p.CS.InitSpec[pkgPath], atReturn: true}
				c, err := ec.evalBool(cl.Expr)
				if err != nil {
					e.failed = fmt.Errorf("%s:%d: %v", cl.File, cl.Line, err)
					return e
				}
				lab := cl.Label
				if lab == "" {
					lab = fmt.Sprintf("%d", i+1)
				}
				e.oblig(r.st, "post", "plugin-invariant:"+lab+"@"+rlabel, Implies(Eq(ITyp(r.results[1]), IntLit(0)), c), r.instr.Pos(), propTags(cl.Tags, "C19"), cl)
			}
			for i, cl := range stableInv {
				ec := &EvalCtx{e: e, st: r.st, old: fr.oldSt, fr: fr, bind: map[string]TV{}, spec: p.CS.InitSpec[pkgPath], atReturn: true}
				c, err := ec.evalBool(cl.Expr)
				if err != nil {
					e.failed = fmt.Errorf("%s:%d: %v", cl.File, cl.Line, err)
					return e
				}
				lab := cl.Label
				if lab == "" {
					lab = fmt.Sprintf("%d", i+1)
				}
				e.oblig(r.st, "post", "plugin-invariant-stable:"+lab+"@"+rlabel, c, r.instr.Pos(), propTags(cl.Tags, "C19"), cl)
			}
		}
		for _, tc := range tcs {
			for i, en := range tc.fc.Ensures {
				if hasTag(en.Tags, "callsite") {
					continue // ghost bookkeeping done by the call rule, not by the implementation
				}
				if !check(en, i, tc.bind, tc.sig, tc.fc.Spec, lastPart(tc.fc.Key)+":") {
					return e
				}
			}
		}
		// lock balance: locks held at exit are exactly those held at entry
		for _, hn := range []string{"G_held", "G_rheld"} {
			cur, ok := r.st.heaps[hn]
			if !ok {
				continue
			}
			base := e.base[hn]
			if cur.T == base.T || e.modifiesGhost(fc, strings.TrimPrefix(hn, "G_")) {
				continue
			}
			// every mutex this function locked or unlocked is in the state it had at entry
			var parts []Val
			for _, m := range e.lockTouched {
				parts = append(parts, Implies(Val{app("<", LRef(m).T, fr.oldSt.next.T), SBool}, Eq(Select(cur, m), Select(base, m))))
			}
			e.oblig(r.st, "lock", "balanced@"+rlabel, And(parts...), r.instr.Pos(), nil, nil)
		}
		// frame
		if fc != nil && fc.HasMod && !fc.TrustedPost {
			e.frameObligations(fr, r.st, fc, pbind, rlabel, r.instr.Pos())
			for _, tc := range tcs {
				if tc.fc.HasMod {
					// the type contract's frame is enforced through its ensures clauses
				}
			}
		}
		if e.failed != nil {
			return e
		}
	}
	return e
}

func (e *Enc) modifiesGhost(fc *FuncContract, name string) bool {
	if fc == nil {
		return false
	}
	for _, m := range fc.Modifies {
		if c, ok := m.(*SCall); ok {
			if id, ok := c.Fun.(*SIdent); ok && id.Name == name {
				return true
			}
		}
		// `modifies everything` does not license leaving a lock held: only an explicit held(...) target does
	}
	return false
}

// frameObligations: every heap that changed agrees with its entry value outside the modifies set,
// for all locations allocated at entry.
func (e *Enc) frameObligations(fr *Frame, st *State, fc *FuncContract, pbind map[string]TV, rlabel string, pos token.Pos) {
	ec := &EvalCtx{e: e, st: fr.oldSt, old: fr.oldSt, bind: pbind, spec: fc.Spec}
	var targets []modTarget
	for _, m := range fc.Modifies {
		t, err := ec.evalModTarget(m)
		if err != nil {
			e.failed = fmt.Errorf("%s:%d: %v", fc.File, fc.Line, err)
			return
		}
		if t.kind == "all" {
			return
		}
		targets = append(targets, t)
	}
	var names []string
	for n := range st.heaps {
		names = append(names, n)
	}
	sort.Strings(names)
	next0 := fr.oldSt.next
	for _, n := range names {
		cur := st.heaps[n]
		base, ok := e.base[n]
		if !ok || cur.T == base.T {
			continue
		}
		switch {
		case strings.HasPrefix(n, "G_held") || strings.HasPrefix(n, "G_rheld"):
			continue // covered by lock balance
		case strings.HasPrefix(n, "GV_"):
			listed := false
			for _, t := range targets {
				if t.kind == "ghostvar" && "GV_"+t.name == n {
					listed = true
				}
			}
			if !listed {
				e.oblig(st, "frame", n+"@"+rlabel, Eq(cur, base), pos, nil, nil)
			}
		case strings.HasPrefix(n, "G_"):
			l := Val{"l!", SLoc}
			var ex []Val
			for _, t := range targets {
				if t.kind == "ghostfield" && "G_"+t.name == n {
					ex = append(ex, Eq(l, t.loc))
				}
				if t.kind == "object" {
					ex = append(ex, Eq(LRef(l), LRef(t.loc)))
				}
			}
			body := Implies(And(Val{app("<", LRef(l).T, next0.T), SBool}, Not(Or(ex...))), Eq(Select(cur, l), Select(base, l)))
			e.oblig(st, "frame", n+"@"+rlabel, Forall([]Val{l}, body), pos, nil, nil)
		case strings.HasPrefix(n, "H_"):
			l := Val{"l!", SLoc}
			var ex []Val
			for _, t := range targets {
				switch t.kind {
				case "loc":
					for _, lf := range e.P.W.Leaves(t.typ) {
						if heapNameT(lf.Sort, lf.Type) != n {
							continue
						}
						tl := t.loc
						if len(lf.Path) > 0 {
							tl = MkLoc(LRef(t.loc), LIdx(t.loc), pathWith(t.loc, lf.Path))
						}
						ex = append(ex, Eq(l, tl))
					}
				case "elems":
					for _, lf := range e.P.W.Leaves(t.typ) {
						if heapNameT(lf.Sort, lf.Type) != n {
							continue
						}
						ex = append(ex, e.inRange(l, SBase(t.slice), SLen(t.slice), lf.Path))
					}
				case "object":
					ex = append(ex, Eq(LRef(l), LRef(t.loc)))
				}
			}
			body := Implies(And(Val{app("<", LRef(l).T, next0.T), SBool}, Val{app("<", "0", LRef(l).T), SBool}, Not(Or(ex...))), Eq(Select(cur, l), Select(base, l)))
			e.oblig(st, "frame", n+"@"+rlabel, Forall([]Val{l}, body), pos, nil, nil)
		case strings.HasPrefix(n, "MD_") || strings.HasPrefix(n, "MV_") || n == "ML":
			r := Val{"r!", SInt}
			var ex []Val
			for _, t := range targets {
				if t.kind == "map" {
					ex = append(ex, Eq(r, t.loc))
				}
			}
			body := Implies(And(Val{app("<", r.T, next0.T), SBool}, Val{app("<", "0", r.T), SBool}, Not(Or(ex...))), Eq(Select(cur, r), Select(base, r)))
			e.oblig(st, "frame", n+"@"+rlabel, Forall([]Val{r}, body), pos, nil, nil)
		}
	}
}

// VerifyLemma proves a contract-level lemma.
func (p *Prog) VerifyLemma(l *Lemma, split *int) *Enc {
	e := NewEnc(p, "lemma:"+l.Name)
	for _, r := range l.Reveals {
		e.revealed[r] = true
	}
	if split != nil {
		e.hasSplit = true
		e.splitVar = l.Split.Var
		e.splitVal = *split
	}
	defer func() {
		if r := recover(); r != nil {
			e.failed = fmt.Errorf("%s: internal error: %v", e.Unit, r)
		}
	}()
	st := p.newEntryState(e)
	e.entry = st.clone()
	bind := map[string]TV{}
	tc := &EvalCtx{e: e, spec: l.Spec}
	for _, prm := range l.Params {
		t, s, err := tc.resolveType(prm.Type)
		if err != nil {
			e.failed = fmt.Errorf("%s:%d: %v", l.File, l.Line, err)
			return e
		}
		v := e.declare("p_"+mangle(prm.Name), s)
		if t != nil {
			e.assumeValid(st, v, t)
		}
		bind[prm.Name] = TV{Val: v, Ty: t, Unsigned: t == nil}
		if e.hasSplit && prm.Name == e.splitVar {
			e.fact(Eq(v, BVBigInt(v.S.BVWidth(), int64(e.splitVal))))
		}
	}
	ec := &EvalCtx{e: e, st: st, old: st, bind: bind, spec: l.Spec}
	for _, rq := range l.Requires {
		c, err := ec.evalBool(rq.Expr)
		if err != nil {
			e.failed = fmt.Errorf("%s:%d: %v", rq.File, rq.Line, err)
			return e
		}
		e.fact(c)
	}
	for i, en := range l.Ensures {
		c, err := ec.evalBool(en.Expr)
		if err != nil {
			e.failed = fmt.Errorf("%s:%d: %v", en.File, en.Line, err)
			return e
		}
		lab := en.Label
		if lab == "" {
			lab = fmt.Sprintf("%d", i+1)
		}
		e.oblig(st, "lemma", lab, c, token.NoPos, en.Tags, en)
	}
	return e
}

// isSetupFunc: a plugin setup function returns (handler.Handler4|Handler6, error).
func isSetupFunc(fn *ssa.Function) bool {
	res := fn.Signature.Results()
	if res.Len() != 2 {
		return false
	}
	nt, ok := res.At(0).Type().(*types.Named)
	if !ok || nt.Obj().Pkg() == nil {
		return false
	}
	n := nt.Obj().Name()
	return strings.HasSuffix(nt.Obj().Pkg().Path(), "/handler") && (n == "Handler4" || n == "Handler6")
}

func isPropTag(t string) bool {
	if len(t) < 3 || t[0] != 'C' {
		return false
	}
	for _, c := range t[1:] {
		if c < '0' || c > '9' {
			return false
		}
	}
	return true
}

// scopeTags: the function names an invariant is scoped to (property ids and keywords removed).
func scopeTags(tags []string) []string {
	var out []string
	for _, t := range tags {
		if t != "inductive" && t != "assumed" && !isPropTag(t) {
			out = append(out, t)
		}
	}
	return out
}

func propTags(tags []string, dflt string) []string {
	out := []string{dflt}
	for _, t := range tags {
		if isPropTag(t) && t != dflt {
			out = append(out, t)
		}
	}
	return out
}

type deferredPreserve struct {
	expr SExpr
	fr   *Frame
	bind map[string]TV
	spec *SpecFile
}

// mentionsLocal reports whether the expression names a local variable of fn.
func mentionsLocal(fn *ssa.Function, x SExpr) bool {
	found := false
	var walk func(SExpr)
	walk = func(x SExpr) {
		switch t := x.(type) {
		case *SIdent:
			for _, b := range fn.Blocks {
				for _, in := range b.Instrs {
					if a, ok := in.(*ssa.Alloc); ok && a.Comment == t.Name {
						found = true
					}
				}
			}
		case *SUnary:
			walk(t.X)
		case *SSelector:
			walk(t.X)
		case *SIndex:
			walk(t.X)
		case *SCall:
			for _, a := range t.Args {
				walk(a)
			}
		}
	}
	walk(x)
	return found
}

// interfaceMethodSig finds method name of the named interface type pkgpath.Name.
func (p *Prog) interfaceMethodSig(key, name string) *types.Signature {
	t := p.namedType(key)
	if t == nil {
		return nil
	}
	it, ok := t.Underlying().(*types.Interface)
	if !ok {
		return nil
	}
	for i := 0; i < it.NumMethods(); i++ {
		if m := it.Method(i); m.Name() == name {
			return m.Type().(*types.Signature)
		}
	}
	return nil
}

func (p *Prog) namedType(key string) types.Type {
	i := strings.LastIndex(key, ".")
	if i < 0 {
		return nil
	}
	pkg := p.Pkgs[key[:i]]
	if pkg == nil {
		return nil
	}
	tn, ok := pkg.Types.Scope().Lookup(key[i+1:]).(*types.TypeName)
	if !ok {
		return nil
	}
	return tn.Type()
}

// assumeLemma adds `forall params: requires ==> ensures` of a lemma as a fact. Opaque spec
// functions stay opaque here (the lemma's own proof reveals them).
func (e *Enc) assumeLemma(st *State, l *Lemma) error {
	bind := map[string]TV{}
	tc := &EvalCtx{e: e, spec: l.Spec}
	var qs []Val
	for _, prm := range l.Params {
		t, s, err := tc.resolveType(prm.Type)
		if err != nil {
			return fmt.Errorf("%s:%d: %v", l.File, l.Line, err)
		}
		qv := Val{prm.Name + "!L", s}
		qs = append(qs, qv)
		bind[prm.Name] = TV{Val: qv, Ty: t, Unsigned: t == nil}
	}
	ec := &EvalCtx{e: e, st: st, old: st, bind: bind, spec: l.Spec, depth: 1}
	pre := True
	for _, rq := range l.Requires {
		c, err := ec.evalBool(rq.Expr)
		if err != nil {
			return fmt.Errorf("%s:%d: %v", rq.File, rq.Line, err)
		}
		pre = And(pre, c)
	}
	post := True
	for _, en := range l.Ensures {
		c, err := ec.evalBool(en.Expr)
		if err != nil {
			return fmt.Errorf("%s:%d: %v", en.File, en.Line, err)
		}
		post = And(post, c)
	}
	var pats []string
	for _, tr := range l.Triggers {
		var terms []string
		for _, tx := range tr {
			tv, err := ec.eval(tx)
			if err != nil {
				return fmt.Errorf("%s:%d: trigger: %v", l.File, l.Line, err)
			}
			terms = append(terms, tv.T)
		}
		pats = append(pats, strings.Join(terms, " "))
	}
	e.fact(quant("forall", qs, Implies(pre, post), pats))
	e.lemmasUsed[l.Name] = true
	return nil
}
