package main

// Evaluation of contract expressions to SMT terms in a given symbolic state.

import (
	"fmt"
	"go/ast"
	"go/constant"
	"go/parser"
	"go/token"
	"go/types"
	"math/big"
	"strconv"
	"strings"

	"golang.org/x/tools/go/ssa"
)

// litTree is an if-then-else tree over untyped integer literals (typed when coerced).
type litTree struct {
	cond Val
	a, b *litTree
	leaf *big.Int
}

func (t *litTree) term(w int, intSort bool) Val {
	if t.leaf != nil {
		if intSort {
			return Val{bigIntSMT(t.leaf), SInt}
		}
		return BVBig(w, t.leaf)
	}
	return Ite(t.cond, t.a.term(w, intSort), t.b.term(w, intSort))
}

type TV struct {
	Val
	Tree     *litTree                 // ite over untyped literals
	Ty       types.Type               // Go type if known
	Lit      *big.Int                 // untyped integer literal
	Unsigned bool                     // for spec bit-vectors without a Go type
	IsNil    bool                     // untyped nil
	Abs      func(idx TV) (TV, error) // array-valued ghost field replaced by its abstraction (pointwise access only)
}

func (t TV) signed() bool {
	if t.Ty != nil {
		return isSigned(t.Ty)
	}
	return !t.Unsigned && false
}

type EvalCtx struct {
	e     *Enc
	st    *State
	old   *State
	fr    *Frame
	bind  map[string]TV
	spec  *SpecFile
	depth int
	// when evaluating at a return site
	atReturn bool
	loopPre  *State     // pre-state of the innermost enclosing loop (for atentry())
	loopIdx  *ssa.Alloc // hidden index of the range loop whose invariant is being evaluated (loopindex)
}

func (e *Enc) evalCtx(fr *Frame, st *State) *EvalCtx {
	ec := &EvalCtx{e: e, st: st, fr: fr, bind: map[string]TV{}}
	if fr != nil {
		ec.old = fr.oldSt
		if fr.fc != nil {
			ec.spec = fr.fc.Spec
		}
		for name, v := range fr.params {
			ec.bind["old:"+name] = TV{Val: v}
		}
	}
	return ec
}

func (c *EvalCtx) with(name string, v TV) *EvalCtx {
	n := *c
	n.bind = map[string]TV{}
	for k, x := range c.bind {
		n.bind[k] = x
	}
	n.bind[name] = v
	return &n
}

func (c *EvalCtx) inState(st *State) *EvalCtx {
	n := *c
	n.st = st
	return &n
}

func (c *EvalCtx) evalBool(x SExpr) (Val, error) {
	v, err := c.eval(x)
	if err != nil {
		return False, err
	}
	if v.S != SBool {
		return False, fmt.Errorf("expression %s is not boolean (sort %s)", specString(x), v.S)
	}
	return v.Val, nil
}

func (c *EvalCtx) W() *World { return c.e.P.W }

func lit(x *big.Int) TV { return TV{Lit: x} }

// coerce turns an untyped literal into a value of the sort of other.
func (c *EvalCtx) coerce(v TV, other TV) (TV, error) {
	if v.Tree != nil {
		if other.S.IsBV() {
			return TV{Val: v.Tree.term(other.S.BVWidth(), false), Ty: other.Ty, Unsigned: other.Unsigned}, nil
		}
		if other.S == SInt {
			return TV{Val: v.Tree.term(0, true)}, nil
		}
		return TV{Val: v.Tree.term(64, false), Ty: types.Typ[types.Int]}, nil
	}
	if v.Lit == nil && !v.IsNil {
		return v, nil
	}
	if v.IsNil {
		switch other.S {
		case SLoc:
			return TV{Val: NilLoc, Ty: other.Ty}, nil
		case SSlice:
			return TV{Val: NilSlice, Ty: other.Ty}, nil
		case SIface:
			return TV{Val: NilIface, Ty: other.Ty}, nil
		case SFunc:
			return TV{Val: NilFunc, Ty: other.Ty}, nil
		case SInt:
			return TV{Val: IntLit(0), Ty: other.Ty}, nil
		}
		return v, fmt.Errorf("nil compared with sort %s", other.S)
	}
	if other.S.IsBV() {
		return TV{Val: BVBig(other.S.BVWidth(), v.Lit), Ty: other.Ty, Unsigned: other.Unsigned}, nil
	}
	if other.S == SInt {
		return TV{Val: Val{bigIntSMT(v.Lit), SInt}}, nil
	}
	if other.Lit != nil || other.S == "" {
		// both literals: default to int (64-bit signed)
		return TV{Val: BVBig(64, v.Lit), Ty: types.Typ[types.Int]}, nil
	}
	return v, fmt.Errorf("integer literal used with sort %s", other.S)
}

func bigIntSMT(x *big.Int) string {
	if x.Sign() < 0 {
		return "(- " + new(big.Int).Neg(x).String() + ")"
	}
	return x.String()
}

func (c *EvalCtx) eval(x SExpr) (TV, error) {
	switch x := x.(type) {
	case *SIntLit:
		n := new(big.Int)
		if _, ok := n.SetString(x.Text, 0); !ok {
			return TV{}, fmt.Errorf("bad integer %s", x.Text)
		}
		return lit(n), nil
	case *SStrLit:
		s, err := strconv.Unquote("\"" + x.Text + "\"")
		if err != nil {
			s = x.Text
		}
		return TV{Val: c.W().StrLit(s), Ty: types.Typ[types.String]}, nil
	case *SIdent:
		return c.evalIdent(x.Name)
	case *SUnary:
		return c.evalUnary(x)
	case *SBinary:
		return c.evalBinary(x)
	case *SSelector:
		return c.evalSelector(x)
	case *SIndex:
		return c.evalIndex(x)
	case *SSliceE:
		return c.evalSliceExpr(x)
	case *SCall:
		return c.evalCall(x)
	case *SQuant:
		return c.evalQuant(x)
	case *STypeAssert:
		v, err := c.eval(x.X)
		if err != nil {
			return TV{}, err
		}
		t, _, err := c.resolveType(x.Type)
		if err != nil {
			return TV{}, err
		}
		if v.S != SIface {
			return TV{}, fmt.Errorf("type assertion on non-interface %s", specString(x.X))
		}
		return TV{Val: c.e.unbox(c.st, v.Val, t), Ty: t}, nil
	}
	return TV{}, fmt.Errorf("cannot evaluate %T", x)
}

func (c *EvalCtx) pkgOf() *types.Package {
	if c.spec != nil && c.spec.PkgPath != "" {
		if p, ok := c.e.P.Pkgs[c.spec.PkgPath]; ok {
			return p.Types
		}
	}
	return nil
}

func (c *EvalCtx) lookupPkg(alias string) *types.Package {
	if c.spec != nil {
		if path, ok := c.spec.Imports[alias]; ok {
			if p, ok := c.e.P.Pkgs[path]; ok {
				return p.Types
			}
		}
	}
	// imports of the contract's package
	if pk := c.pkgOf(); pk != nil {
		for _, imp := range pk.Imports() {
			if imp.Name() == alias {
				return imp
			}
		}
	}
	if p, ok := c.e.P.Pkgs[alias]; ok { // std packages by path
		return p.Types
	}
	return nil
}

func (c *EvalCtx) evalIdent(name string) (TV, error) {
	switch name {
	case "true":
		return TV{Val: True, Ty: types.Typ[types.Bool]}, nil
	case "false":
		return TV{Val: False, Ty: types.Typ[types.Bool]}, nil
	case "nil":
		return TV{IsNil: true}, nil
	}
	if v, ok := c.bind[name]; ok {
		return v, nil
	}
	// entry values: name0
	if strings.HasSuffix(name, "0") {
		if v, ok := c.bind["old:"+strings.TrimSuffix(name, "0")]; ok {
			if c.fr != nil {
				for _, p := range c.fr.fn.Params {
					if p.Name() == strings.TrimSuffix(name, "0") {
						return TV{Val: v.Val, Ty: p.Type()}, nil
					}
				}
			}
			return v, nil
		}
	}
	if name == "loopindex" {
		// the index of the range loop this invariant belongs to (independent of how many other
		// range loops the function has and of the order go/ssa lays them out in)
		if c.loopIdx == nil {
			return TV{}, fmt.Errorf("loopindex: not in the invariant of a range loop over a slice")
		}
		return TV{Val: c.e.cellGet(c.st, c.loopIdx), Ty: types.Typ[types.Int]}, nil
	}
	// locals of the function under verification
	if c.fr != nil {
		if a := c.findLocal(name); a != nil {
			t := a.Type().(*types.Pointer).Elem()
			if !a.Heap {
				if _, live := c.st.cells[a]; !live {
					// e.g. old(p) for a parameter: the cell does not exist yet in the entry state
					if pv, ok := c.fr.params[name]; ok {
						return TV{Val: pv, Ty: t}, nil
					}
				}
				return TV{Val: c.e.cellGet(c.st, a), Ty: t}, nil
			}
			if loc, ok := c.fr.vals[a]; ok {
				return TV{Val: c.e.load(c.st, loc, t), Ty: t}, nil
			}
			return TV{}, fmt.Errorf("local %s not yet allocated here", name)
		}
	}
	if gv, ok := c.e.P.CS.GhostVars[name]; ok {
		return c.ghostVar(gv)
	}
	if pk := c.pkgOf(); pk != nil {
		if obj := pk.Scope().Lookup(name); obj != nil {
			return c.evalObject(obj)
		}
	}
	if sf, ok := c.e.P.CS.SpecFuncs[name]; ok && len(sf.Params) == 0 {
		return c.callSpecFunc(sf, nil)
	}
	return TV{}, fmt.Errorf("unknown identifier %q", name)
}

func (c *EvalCtx) findLocal(name string) *ssa.Alloc {
	want := name
	ord := 1
	if i := strings.Index(name, "$"); i > 0 {
		want = name[:i]
		ord, _ = strconv.Atoi(name[i+1:])
	}
	n := 0
	var all []*ssa.Alloc
	for _, b := range c.fr.fn.Blocks {
		for _, in := range b.Instrs {
			if a, ok := in.(*ssa.Alloc); ok && a.Comment == want {
				all = append(all, a)
			}
		}
	}
	for _, a := range all {
		n++
		if n == ord {
			return a
		}
	}
	return nil
}

func (c *EvalCtx) ghostVar(gv *GhostVar) (TV, error) {
	t, s, err := (&EvalCtx{e: c.e, spec: gv.Spec}).resolveType(gv.Type)
	if err != nil {
		return TV{}, err
	}
	c.e.ghostVarsUsed[gv.Name] = true
	h := c.e.heap(c.st, "GV_"+gv.Name, s)
	return TV{Val: h, Ty: t, Unsigned: true}, nil
}

func (c *EvalCtx) evalObject(obj types.Object) (TV, error) {
	switch o := obj.(type) {
	case *types.Const:
		return c.constTV(o)
	case *types.Var:
		// package-level variable: load from its global location
		sp := c.e.P.SSA.Package(o.Pkg())
		if sp == nil {
			return TV{}, fmt.Errorf("no SSA package for %s", o.Pkg().Path())
		}
		g, ok := sp.Members[o.Name()].(*ssa.Global)
		if !ok {
			return TV{}, fmt.Errorf("%s is not a global", o.Name())
		}
		if v, ok := c.e.immGlobal(g); ok {
			return TV{Val: v, Ty: o.Type()}, nil
		}
		loc := c.e.globalLoc(g)
		gv := c.e.load(c.st, loc, o.Type())
		c.assumeLoadedValid(gv, o.Type())
		return TV{Val: gv, Ty: o.Type()}, nil
	case *types.Func:
		sp := c.e.P.SSA.Package(o.Pkg())
		if sp != nil {
			if f := sp.Func(o.Name()); f != nil {
				return TV{Val: MkFunc(IntLit(int64(c.W().FuncID(funcKey(f)))), NilLoc), Ty: o.Type()}, nil
			}
		}
	}
	return TV{}, fmt.Errorf("cannot use %s in a contract", obj)
}

func (c *EvalCtx) constTV(o *types.Const) (TV, error) {
	t := o.Type()
	if b, ok := t.Underlying().(*types.Basic); ok {
		switch {
		case b.Info()&types.IsInteger != 0:
			v := constant.ToInt(o.Val())
			bi, _ := new(big.Int).SetString(v.ExactString(), 10)
			if b.Info()&types.IsUntyped != 0 {
				return lit(bi), nil
			}
			n, _ := intWidth(b)
			return TV{Val: BVBig(n, bi), Ty: t}, nil
		case b.Info()&types.IsString != 0:
			return TV{Val: c.W().StrLit(constant.StringVal(o.Val())), Ty: t}, nil
		case b.Info()&types.IsBoolean != 0:
			if constant.BoolVal(o.Val()) {
				return TV{Val: True, Ty: t}, nil
			}
			return TV{Val: False, Ty: t}, nil
		}
	}
	return TV{}, fmt.Errorf("unsupported constant %s", o)
}

func (c *EvalCtx) evalUnary(x *SUnary) (TV, error) {
	if x.Op == "&" {
		loc, t, err := c.evalAddr(x.X)
		if err != nil {
			return TV{}, err
		}
		return TV{Val: loc, Ty: types.NewPointer(t)}, nil
	}
	v, err := c.eval(x.X)
	if err != nil {
		return TV{}, err
	}
	switch x.Op {
	case "!":
		if v.S != SBool {
			return TV{}, fmt.Errorf("! on non-bool %s", specString(x.X))
		}
		return TV{Val: Not(v.Val), Ty: v.Ty}, nil
	case "-":
		if v.Lit != nil {
			return lit(new(big.Int).Neg(v.Lit)), nil
		}
		return TV{Val: Val{app("bvneg", v.T), v.S}, Ty: v.Ty}, nil
	case "^":
		if v.Lit != nil {
			return TV{}, fmt.Errorf("^ on literal")
		}
		return TV{Val: Val{app("bvnot", v.T), v.S}, Ty: v.Ty, Unsigned: v.Unsigned}, nil
	case "*":
		pt, ok := v.Ty.Underlying().(*types.Pointer)
		if !ok {
			return TV{}, fmt.Errorf("* on non-pointer")
		}
		lv := c.e.load(c.st, v.Val, pt.Elem())
		c.assumeLoadedValid(lv, pt.Elem())
		return TV{Val: lv, Ty: pt.Elem()}, nil
	}
	return TV{}, fmt.Errorf("unknown unary %s", x.Op)
}

func (c *EvalCtx) evalBinary(x *SBinary) (TV, error) {
	switch x.Op {
	case "&&", "||", "==>", "<==>":
		a, err := c.evalBool(x.X)
		if err != nil {
			return TV{}, err
		}
		b, err := c.evalBool(x.Y)
		if err != nil {
			return TV{}, err
		}
		var r Val
		switch x.Op {
		case "&&":
			r = And(a, b)
		case "||":
			r = Or(a, b)
		case "==>":
			r = Implies(a, b)
		default:
			r = Eq(a, b)
		}
		return TV{Val: r, Ty: types.Typ[types.Bool]}, nil
	}
	a, err := c.eval(x.X)
	if err != nil {
		return TV{}, err
	}
	b, err := c.eval(x.Y)
	if err != nil {
		return TV{}, err
	}
	if a.Lit != nil && b.Lit != nil {
		// constant folding on literals
		r := new(big.Int)
		switch x.Op {
		case "+":
			return lit(r.Add(a.Lit, b.Lit)), nil
		case "-":
			return lit(r.Sub(a.Lit, b.Lit)), nil
		case "*":
			return lit(r.Mul(a.Lit, b.Lit)), nil
		case "<<":
			return lit(r.Lsh(a.Lit, uint(b.Lit.Int64()))), nil
		case ">>":
			return lit(r.Rsh(a.Lit, uint(b.Lit.Int64()))), nil
		case "/":
			return lit(r.Quo(a.Lit, b.Lit)), nil
		}
	}
	isShift := x.Op == "<<" || x.Op == ">>"
	if !isShift {
		if a, err = c.coerce(a, b); err != nil {
			return TV{}, fmt.Errorf("%v in %s", err, specString(x))
		}
		if b, err = c.coerce(b, a); err != nil {
			return TV{}, fmt.Errorf("%v in %s", err, specString(x))
		}
	} else {
		if a.Lit != nil {
			a = TV{Val: BVBig(64, a.Lit), Ty: types.Typ[types.Int]}
		}
		if b.Lit != nil {
			b = TV{Val: BVBig(a.S.BVWidth(), b.Lit), Unsigned: true}
		}
	}
	// signedness: Go-typed operands follow Go; spec bit-vectors (no Go type) are unsigned,
	// and a mixed operation is unsigned. For shifts only the left operand counts.
	signed := false
	if isShift {
		signed = a.Ty != nil && isIntType(a.Ty) && isSigned(a.Ty)
	} else if a.Ty != nil && isIntType(a.Ty) && b.Ty != nil && isIntType(b.Ty) {
		signed = isSigned(a.Ty)
	} else if a.Ty != nil && isIntType(a.Ty) && b.Ty == nil && !b.Unsigned {
		signed = isSigned(a.Ty)
	} else if b.Ty != nil && isIntType(b.Ty) && a.Ty == nil && !a.Unsigned {
		signed = isSigned(b.Ty)
	}
	resTy := a.Ty
	if resTy == nil {
		resTy = b.Ty
	}
	switch x.Op {
	case "==", "!=":
		var r Val
		if a.S != b.S {
			return TV{}, fmt.Errorf("comparison of different sorts %s and %s in %s", a.S, b.S, specString(x))
		}
		switch a.S {
		case SStr:
			r = c.e.strEq(a.Val, b.Val)
		case SSlice:
			if b.T == "nilslice" {
				r = Eq(LRef(SBase(a.Val)), IntLit(0))
			} else if a.T == "nilslice" {
				r = Eq(LRef(SBase(b.Val)), IntLit(0))
			} else {
				r = Eq(a.Val, b.Val)
			}
		case SIface:
			if b.T == "niliface" {
				r = Eq(ITyp(a.Val), IntLit(0))
			} else if a.T == "niliface" {
				r = Eq(ITyp(b.Val), IntLit(0))
			} else {
				r = Eq(a.Val, b.Val)
			}
		case SFunc:
			if b.T == "nilfunc" {
				r = Eq(FnID(a.Val), IntLit(0))
			} else {
				r = Eq(a.Val, b.Val)
			}
		default:
			r = Eq(a.Val, b.Val)
		}
		if x.Op == "!=" {
			r = Not(r)
		}
		return TV{Val: r, Ty: types.Typ[types.Bool]}, nil
	case "<", "<=", ">", ">=":
		o := map[string]string{"<": "lt", "<=": "le", ">": "gt", ">=": "ge"}[x.Op]
		if a.S == SInt {
			return TV{Val: Val{app(x.Op, a.T, b.T), SBool}}, nil
		}
		if !a.S.IsBV() || a.S != b.S {
			return TV{}, fmt.Errorf("ordering comparison on sorts %s, %s in %s", a.S, b.S, specString(x))
		}
		if signed {
			return TV{Val: BVCmp("bvs"+o, a.Val, b.Val), Ty: types.Typ[types.Bool]}, nil
		}
		return TV{Val: BVCmp("bvu"+o, a.Val, b.Val), Ty: types.Typ[types.Bool]}, nil
	}
	if a.S == SInt && b.S == SInt {
		switch x.Op {
		case "+", "-", "*":
			return TV{Val: Val{app(x.Op, a.T, b.T), SInt}}, nil
		}
	}
	if !a.S.IsBV() {
		return TV{}, fmt.Errorf("arithmetic on sort %s in %s", a.S, specString(x))
	}
	if isShift {
		return TV{Val: shiftVal(x.Op == "<<", signed, a.Val, b.Val), Ty: a.Ty, Unsigned: a.Unsigned}, nil
	}
	if a.S != b.S {
		return TV{}, fmt.Errorf("width mismatch %s vs %s in %s", a.S, b.S, specString(x))
	}
	ops := map[string]string{"+": "bvadd", "-": "bvsub", "*": "bvmul", "&": "bvand", "|": "bvor", "^": "bvxor"}
	if o, ok := ops[x.Op]; ok {
		return TV{Val: BVOp(o, a.Val, b.Val), Ty: resTy, Unsigned: a.Unsigned || b.Unsigned}, nil
	}
	switch x.Op {
	case "&^":
		return TV{Val: BVOp("bvand", a.Val, Val{app("bvnot", b.T), b.S}), Ty: resTy, Unsigned: a.Unsigned}, nil
	case "/":
		if signed {
			return TV{Val: BVOp("bvsdiv", a.Val, b.Val), Ty: resTy}, nil
		}
		return TV{Val: BVOp("bvudiv", a.Val, b.Val), Ty: resTy, Unsigned: a.Unsigned}, nil
	case "%":
		if signed {
			return TV{Val: BVOp("bvsrem", a.Val, b.Val), Ty: resTy}, nil
		}
		return TV{Val: BVOp("bvurem", a.Val, b.Val), Ty: resTy, Unsigned: a.Unsigned}, nil
	}
	return TV{}, fmt.Errorf("unknown operator %s", x.Op)
}

// findField finds a (possibly promoted) field; returns the chain of (struct type, index).
func findField(t types.Type, name string) ([]int, []types.Type, bool) {
	st, ok := t.Underlying().(*types.Struct)
	if !ok {
		return nil, nil, false
	}
	for i := 0; i < st.NumFields(); i++ {
		if st.Field(i).Name() == name {
			return []int{i}, []types.Type{t}, true
		}
	}
	for i := 0; i < st.NumFields(); i++ {
		f := st.Field(i)
		if f.Embedded() {
			ft := f.Type()
			if p, ok := ft.Underlying().(*types.Pointer); ok {
				_ = p
				continue // promoted through pointer: not supported in specs
			}
			if idx, ts, ok := findField(ft, name); ok {
				return append([]int{i}, idx...), append([]types.Type{t}, ts...), true
			}
		}
	}
	return nil, nil, false
}

func (c *EvalCtx) evalSelector(x *SSelector) (TV, error) {
	// qualified identifier pkg.Name
	if id, ok := x.X.(*SIdent); ok {
		if _, bound := c.bind[id.Name]; !bound && (c.fr == nil || c.findLocal(id.Name) == nil) {
			if pk := c.lookupPkg(id.Name); pk != nil {
				obj := pk.Scope().Lookup(x.Sel)
				if obj == nil {
					return TV{}, fmt.Errorf("%s.%s not found", id.Name, x.Sel)
				}
				return c.evalObject(obj)
			}
		}
	}
	v, err := c.eval(x.X)
	if err != nil {
		return TV{}, err
	}
	if v.Ty == nil {
		return TV{}, fmt.Errorf("selector .%s on untyped value %s", x.Sel, specString(x.X))
	}
	t := v.Ty
	if pt, ok := t.Underlying().(*types.Pointer); ok {
		idx, ts, ok := findField(pt.Elem(), x.Sel)
		if !ok {
			return TV{}, fmt.Errorf("no field %s in %s", x.Sel, pt.Elem())
		}
		loc := v.Val
		var ft types.Type
		for k, i := range idx {
			si := c.W().StructOf(ts[k])
			loc = FieldLoc(loc, si.Fields[i].FID)
			ft = si.Fields[i].Type
		}
		lv := c.e.load(c.st, loc, ft)
		c.assumeLoadedValid(lv, ft)
		return TV{Val: lv, Ty: ft}, nil
	}
	idx, ts, ok := findField(t, x.Sel)
	if !ok {
		return TV{}, fmt.Errorf("no field %s in %s", x.Sel, t)
	}
	cur := v.Val
	var ft types.Type
	for k, i := range idx {
		si := c.W().StructOf(ts[k])
		f := si.Fields[i]
		cur = Val{app(f.Sel, cur.T), f.Sort}
		ft = f.Type
	}
	return TV{Val: cur, Ty: ft}, nil
}

// evalAddr evaluates the location of an addressable expression.
// assumeLoadedValid: values read from memory satisfy their type invariant (lengths are
// non-negative, references are allocated). Skipped under quantifiers.
func (c *EvalCtx) assumeLoadedValid(v Val, t types.Type) {
	if strings.Contains(v.T, "!") || c.st == nil {
		return
	}
	// a value read from memory in state S refers to objects allocated before S
	key := "valid:" + v.T + "@" + c.st.next.T
	if c.e.revealDone[key] {
		return
	}
	c.e.revealDone[key] = true
	for _, f := range c.e.validFacts(c.st, v, t, 0) {
		c.e.fact(f)
	}
}

func (c *EvalCtx) evalAddr(x SExpr) (Val, types.Type, error) {
	switch x := x.(type) {
	case *SIdent:
		if c.fr != nil {
			if _, bound := c.bind[x.Name]; !bound {
				if a := c.findLocal(x.Name); a != nil && a.Heap {
					if loc, ok := c.fr.vals[a]; ok {
						return loc, a.Type().(*types.Pointer).Elem(), nil
					}
				}
			}
		}
		if _, bound := c.bind[x.Name]; !bound {
			if pk := c.pkgOf(); pk != nil {
				if obj, ok := pk.Scope().Lookup(x.Name).(*types.Var); ok {
					sp := c.e.P.SSA.Package(obj.Pkg())
					if g, ok := sp.Members[obj.Name()].(*ssa.Global); ok {
						return c.e.globalLoc(g), obj.Type(), nil
					}
				}
			}
		}
	case *SSelector:
		if id, ok := x.X.(*SIdent); ok {
			if _, bound := c.bind[id.Name]; !bound && (c.fr == nil || c.findLocal(id.Name) == nil) {
				if pk := c.lookupPkg(id.Name); pk != nil {
					if obj, ok := pk.Scope().Lookup(x.Sel).(*types.Var); ok {
						sp := c.e.P.SSA.Package(obj.Pkg())
						if g, ok := sp.Members[obj.Name()].(*ssa.Global); ok {
							return c.e.globalLoc(g), obj.Type(), nil
						}
					}
				}
			}
		}
		// p.f with p pointer, or addressable x.f
		base, err := c.eval(x.X)
		var bloc Val
		var bt types.Type
		if err == nil && base.Ty != nil {
			if pt, ok := base.Ty.Underlying().(*types.Pointer); ok {
				bloc, bt = base.Val, pt.Elem()
			}
		}
		if bt == nil {
			l, t, err2 := c.evalAddr(x.X)
			if err2 != nil {
				return Val{}, nil, fmt.Errorf("cannot take address of %s", specString(x))
			}
			bloc, bt = l, t
		}
		idx, ts, ok := findField(bt, x.Sel)
		if !ok {
			return Val{}, nil, fmt.Errorf("no field %s in %s", x.Sel, bt)
		}
		var ft types.Type
		for k, i := range idx {
			si := c.W().StructOf(ts[k])
			bloc = FieldLoc(bloc, si.Fields[i].FID)
			ft = si.Fields[i].Type
		}
		return bloc, ft, nil
	case *SIndex:
		s, err := c.eval(x.X)
		if err != nil {
			return Val{}, nil, err
		}
		i, err := c.eval(x.I)
		if err != nil {
			return Val{}, nil, err
		}
		if s.S == SSlice {
			iv, err := c.coerce(i, TV{Val: BV(64, 0)})
			if err != nil {
				return Val{}, nil, err
			}
			return ElemLoc(SBase(s.Val), iv.Val), s.Ty.Underlying().(*types.Slice).Elem(), nil
		}
	case *SUnary:
		if x.Op == "*" {
			p, err := c.eval(x.X)
			if err != nil {
				return Val{}, nil, err
			}
			return p.Val, p.Ty.Underlying().(*types.Pointer).Elem(), nil
		}
	}
	return Val{}, nil, fmt.Errorf("not addressable: %s", specString(x))
}

func (c *EvalCtx) evalIndex(x *SIndex) (TV, error) {
	s, err := c.eval(x.X)
	if err != nil {
		return TV{}, err
	}
	i, err := c.eval(x.I)
	if err != nil {
		return TV{}, err
	}
	if s.Abs != nil {
		return s.Abs(i)
	}
	switch {
	case s.S == SSlice:
		iv, err := c.coerce(i, TV{Val: BV(64, 0)})
		if err != nil {
			return TV{}, err
		}
		et := s.Ty.Underlying().(*types.Slice).Elem()
		return TV{Val: c.e.load(c.st, ElemLoc(SBase(s.Val), c.e.toInt64(iv.Val, typOr(iv.Ty))), et), Ty: et}, nil
	case s.S.IsArray():
		k, v := s.S.ArrayParts()
		iv, err := c.coerce(i, TV{Val: Val{"", k}})
		if err != nil {
			return TV{}, err
		}
		if iv.S != k {
			if iv.S.IsBV() && k.IsBV() {
				iv.Val = ZExt(k.BVWidth(), iv.Val)
			} else {
				return TV{}, fmt.Errorf("array index sort %s, want %s", iv.S, k)
			}
		}
		var et types.Type
		if s.Ty != nil {
			if at, ok := s.Ty.Underlying().(*types.Array); ok {
				et = at.Elem()
			}
		}
		return TV{Val: Select(s.Val, iv.Val), Ty: et, Unsigned: v.IsBV()}, nil
	case s.Ty != nil && isMap(s.Ty):
		mt := s.Ty.Underlying().(*types.Map)
		kv, err := c.coerce(i, TV{Val: Val{"", c.W().SortOf(mt.Key())}})
		if err != nil {
			return TV{}, err
		}
		v, _ := c.e.mapGet(c.st, s.Val, kv.Val, mt)
		return TV{Val: v, Ty: mt.Elem()}, nil
	case s.S == SStr:
		iv, err := c.coerce(i, TV{Val: BV(64, 0)})
		if err != nil {
			return TV{}, err
		}
		f := c.W().Uninterp("str_at", []Sort{SStr, BVSort(64)}, BVSort(8))
		return TV{Val: Val{app(f, s.T, iv.T), BVSort(8)}, Ty: types.Typ[types.Uint8]}, nil
	}
	return TV{}, fmt.Errorf("cannot index %s (sort %s)", specString(x.X), s.S)
}

func typOr(t types.Type) types.Type {
	if t == nil {
		return types.Typ[types.Int]
	}
	return t
}

func isMap(t types.Type) bool {
	_, ok := t.Underlying().(*types.Map)
	return ok
}

func (c *EvalCtx) evalSliceExpr(x *SSliceE) (TV, error) {
	s, err := c.eval(x.X)
	if err != nil {
		return TV{}, err
	}
	if s.S == SStr {
		// substring: the same uninterpreted str_sub the code's string slicing is modelled with
		lo, hi := BV(64, 0), StrLen(s.Val)
		if x.Lo != nil {
			v, err := c.eval(x.Lo)
			if err != nil {
				return TV{}, err
			}
			v, _ = c.coerce(v, TV{Val: BV(64, 0)})
			lo = v.Val
		}
		if x.Hi != nil {
			v, err := c.eval(x.Hi)
			if err != nil {
				return TV{}, err
			}
			v, _ = c.coerce(v, TV{Val: BV(64, 0)})
			hi = v.Val
		}
		f := c.W().Uninterp("str_sub", []Sort{SStr, BVSort(64), BVSort(64)}, SStr)
		return TV{Val: Val{app(f, s.Val.T, lo.T, hi.T), SStr}, Ty: types.Typ[types.String]}, nil
	}
	if s.S != SSlice {
		return TV{}, fmt.Errorf("slice expression on %s", s.S)
	}
	lo := BV(64, 0)
	hi := SLen(s.Val)
	if x.Lo != nil {
		v, err := c.eval(x.Lo)
		if err != nil {
			return TV{}, err
		}
		v, _ = c.coerce(v, TV{Val: BV(64, 0)})
		lo = v.Val
	}
	if x.Hi != nil {
		v, err := c.eval(x.Hi)
		if err != nil {
			return TV{}, err
		}
		v, _ = c.coerce(v, TV{Val: BV(64, 0)})
		hi = v.Val
	}
	return TV{Val: MkSlice(ElemLoc(SBase(s.Val), lo), BVOp("bvsub", hi, lo), BVOp("bvsub", SCap(s.Val), lo)), Ty: s.Ty}, nil
}

func (c *EvalCtx) evalQuant(x *SQuant) (TV, error) {
	var ty types.Type = types.Typ[types.Int]
	s := BVSort(64)
	unsigned := false
	if x.Type != "" {
		t, ss, err := c.resolveType(x.Type)
		if err != nil {
			return TV{}, err
		}
		ty, s = t, ss
		if ty == nil && s.IsBV() {
			unsigned = true
		}
	}
	name := x.Var + "!" + fmt.Sprint(c.depth)
	qv := TV{Val: Val{name, s}, Ty: ty, Unsigned: unsigned}
	cc := c.with(x.Var, qv)
	cc.depth = c.depth + 1
	body, err := cc.evalBool(x.Body)
	if err != nil {
		return TV{}, err
	}
	if x.Lo != nil {
		lo, err := c.eval(x.Lo)
		if err != nil {
			return TV{}, err
		}
		hi, err := c.eval(x.Hi)
		if err != nil {
			return TV{}, err
		}
		lo, _ = c.coerce(lo, qv)
		hi, _ = c.coerce(hi, qv)
		if lo.S != s || hi.S != s {
			return TV{}, fmt.Errorf("quantifier range sorts %s..%s do not match %s", lo.S, hi.S, s)
		}
		le, lt := "bvsle", "bvslt"
		if ty != nil && !isSigned(ty) || unsigned {
			le, lt = "bvule", "bvult"
		}
		rng := And(BVCmp(le, lo.Val, qv.Val), BVCmp(lt, qv.Val, hi.Val))
		if x.Forall {
			body = Implies(rng, body)
		} else {
			body = And(rng, body)
		}
	}
	if x.Forall {
		return TV{Val: Forall([]Val{qv.Val}, body), Ty: types.Typ[types.Bool]}, nil
	}
	return TV{Val: Exists([]Val{qv.Val}, body), Ty: types.Typ[types.Bool]}, nil
}

// resolveType resolves a type written in a contract: Go types (with the
// contract file's import aliases) or spec sorts (bvN, mathint, Loc, Array[K]V, set[K]).
func (c *EvalCtx) resolveType(text string) (types.Type, Sort, error) {
	text = strings.TrimSpace(text)
	if strings.HasPrefix(text, "bv") {
		if n, err := strconv.Atoi(text[2:]); err == nil {
			return nil, BVSort(n), nil
		}
	}
	switch text {
	case "mathint":
		return nil, SInt, nil
	case "Loc":
		return nil, SLoc, nil
	case "Iface":
		return nil, SIface, nil
	case "Func":
		return nil, SFunc, nil
	}
	if strings.HasPrefix(text, "Array[") {
		// Array[K]V
		depth := 0
		for i := 5; i < len(text); i++ {
			if text[i] == '[' {
				depth++
			}
			if text[i] == ']' {
				depth--
				if depth == 0 {
					_, ks, err := c.resolveType(text[6:i])
					if err != nil {
						return nil, "", err
					}
					_, vs, err := c.resolveType(text[i+1:])
					if err != nil {
						return nil, "", err
					}
					return nil, ArraySort(ks, vs), nil
				}
			}
		}
	}
	ex, err := parser.ParseExpr(text)
	if err != nil {
		return nil, "", fmt.Errorf("bad type %q: %v", text, err)
	}
	t, err := c.astType(ex)
	if err != nil {
		return nil, "", err
	}
	return t, c.W().SortOf(t), nil
}

func (c *EvalCtx) astType(ex ast.Expr) (types.Type, error) {
	switch x := ex.(type) {
	case *ast.Ident:
		if obj := types.Universe.Lookup(x.Name); obj != nil {
			if tn, ok := obj.(*types.TypeName); ok {
				return tn.Type(), nil
			}
		}
		if pk := c.pkgOf(); pk != nil {
			if obj, ok := pk.Scope().Lookup(x.Name).(*types.TypeName); ok {
				return obj.Type(), nil
			}
		}
		return nil, fmt.Errorf("unknown type %s", x.Name)
	case *ast.SelectorExpr:
		id, ok := x.X.(*ast.Ident)
		if !ok {
			return nil, fmt.Errorf("bad qualified type")
		}
		pk := c.lookupPkg(id.Name)
		if pk == nil {
			return nil, fmt.Errorf("unknown package %s in type", id.Name)
		}
		obj, ok := pk.Scope().Lookup(x.Sel.Name).(*types.TypeName)
		if !ok {
			return nil, fmt.Errorf("unknown type %s.%s", id.Name, x.Sel.Name)
		}
		return obj.Type(), nil
	case *ast.StarExpr:
		t, err := c.astType(x.X)
		if err != nil {
			return nil, err
		}
		return types.NewPointer(t), nil
	case *ast.ArrayType:
		t, err := c.astType(x.Elt)
		if err != nil {
			return nil, err
		}
		if x.Len == nil {
			return types.NewSlice(t), nil
		}
		if bl, ok := x.Len.(*ast.BasicLit); ok && bl.Kind == token.INT {
			n, _ := strconv.Atoi(bl.Value)
			return types.NewArray(t, int64(n)), nil
		}
	case *ast.MapType:
		k, err := c.astType(x.Key)
		if err != nil {
			return nil, err
		}
		v, err := c.astType(x.Value)
		if err != nil {
			return nil, err
		}
		return types.NewMap(k, v), nil
	case *ast.InterfaceType:
		return types.NewInterfaceType(nil, nil), nil
	case *ast.ParenExpr:
		return c.astType(x.X)
	}
	return nil, fmt.Errorf("unsupported type expression %T", ex)
}
