package main

// Verification-condition generation: symbolic encoding of go/ssa (naive form)
// functions into SMT facts and obligations.

import (
	"bytes"
	"fmt"
	"go/ast"
	"go/printer"
	"go/token"
	"go/types"
	"sort"
	"strings"

	"golang.org/x/tools/go/ast/astutil"
	"golang.org/x/tools/go/packages"
	"golang.org/x/tools/go/ssa"
)

type Prog struct {
	W        *World
	CS       *Contracts
	SSA      *ssa.Program
	Pkgs     map[string]*packages.Package
	Fset     *token.FileSet
	ModPath  string
	funcs    map[string]*ssa.Function // by key
	gwriters map[*ssa.Global][]string
}

type Oblig struct {
	Name    string
	Kind    string
	Func    string
	Tags    []string
	Pos     token.Position
	Reach   Val
	Cond    Val
	NFacts  int
	NDecls  int
	Enc     *Enc
	Desc    string
	Split   string
	Clause  *Clause
	Result  *SolveResult
	IsCover bool // satisfiable expected
}

type Enc struct {
	P        *Prog
	Unit     string // unit name (function key or lemma name)
	Fn       *ssa.Function
	FC       *FuncContract
	decls    []string
	declSet  map[string]bool
	facts    []string
	obligs   []*Oblig
	counter  int
	base     map[string]Val // base (entry) heaps by name
	entry    *State
	names    map[string]int // obligation name de-duplication
	splitVar string
	splitVal int
	hasSplit bool
	// reporting
	assumedUsed   map[string]bool
	unspecExtern  map[string]bool
	abstractions  map[string]bool
	inlined       map[string]bool
	inlineStack   []*ssa.Function
	lockTouched   []Val // mutex locations locked/unlocked in this unit
	ghostVarsUsed map[string]bool
	contractsUsed map[string]bool
	initFactsDone map[string]bool
	initUnit      bool
	preserved     []modTarget // state preserved across unbounded-frame calls (kind loc or elems)
	deferredPres  []deferredPreserve
	dbgCall       string
	lemmasUsed    map[string]bool
	iterUnstable  map[ssa.Value]bool // map iterators whose map the loop body may modify
	curCall       *ssa.CallCommon    // the call being encoded (for modifies targets resolved at the call site)
	absRecv       Val                // refinement check: the receiver whose interface-level ghost fields are abstracted
	absRecvBoxed  Val                // the same receiver as reached through the interface value (payload of the boxed receiver)
	absType       string             // its type as written in the abstracts declarations' package (resolved type string)
	revealed      map[string]bool
	revealDone    map[string]bool
	epochCounter  int
	failed        error
}

type deferred struct {
	instr *ssa.Defer
	fnVal Val
	args  []Val
	recv  *LocalRef
	guard Val // condition under which the defer statement was executed on this path ("" = always)
}

type State struct {
	reach  Val
	cells  map[*ssa.Alloc]Val
	heaps  map[string]Val
	next   Val
	defers []deferred
	iters  map[ssa.Value]Val // visited sets of map iterators
	iterN  map[ssa.Value]Val // number of keys delivered so far by each map iterator
	oldOv  map[string]Val    // old() overrides: protected state rebased at lock acquisition on this path
	epochs []*lazyEpoch      // havoc events whose not-yet-materialised heaps get one deterministic fresh constant each
}

// lazyEpoch: a havoc event (loop head, call with an unbounded frame). A heap that is first
// touched afterwards, and that the event covers, is the constant <name>_ep<id> - the same one
// in every state derived from the event, so branches agree.
type lazyEpoch struct {
	id     int
	all    bool
	scalar bool
	names  map[string]bool
}

func (ep *lazyEpoch) covers(name string) bool {
	if strings.HasPrefix(name, "G_held") || strings.HasPrefix(name, "G_rheld") {
		return ep.names[name]
	}
	return ep.all || ep.names[name] || (ep.scalar && strings.HasPrefix(name, "H_"))
}

func (s *State) epochFor(name string) *lazyEpoch {
	for i := len(s.epochs) - 1; i >= 0; i-- {
		if s.epochs[i].covers(name) {
			return s.epochs[i]
		}
	}
	return nil
}

func (s *State) clone() *State {
	n := &State{reach: s.reach, next: s.next, cells: map[*ssa.Alloc]Val{}, heaps: map[string]Val{}, iters: map[ssa.Value]Val{}}
	n.epochs = append([]*lazyEpoch{}, s.epochs...)
	if len(s.oldOv) > 0 {
		n.oldOv = map[string]Val{}
		for k, v := range s.oldOv {
			n.oldOv[k] = v
		}
	}
	for k, v := range s.cells {
		n.cells[k] = v
	}
	for k, v := range s.heaps {
		n.heaps[k] = v
	}
	for k, v := range s.iters {
		n.iters[k] = v
	}
	if len(s.iterN) > 0 {
		n.iterN = map[ssa.Value]Val{}
		for k, v := range s.iterN {
			n.iterN[k] = v
		}
	}
	n.defers = append([]deferred{}, s.defers...)
	return n
}

type lstep struct {
	field int // field index, or -1 for array index
	idx   Val
	typ   types.Type // type of the aggregate being indexed
}

type LocalRef struct {
	A    *ssa.Alloc
	Path []lstep
}

type Frame struct {
	fn       *ssa.Function
	vals     map[ssa.Value]Val
	tuples   map[ssa.Value][]Val
	lrefs    map[ssa.Value]*LocalRef
	params   map[string]Val // entry values of params by name
	loops    map[*ssa.BasicBlock]*loopInfo
	fc       *FuncContract
	prefix   string // obligation-name prefix for inlined frames
	depth    int
	oldSt    *State
	results  []Val
	parent   *Frame
	edgeR    map[[2]*ssa.BasicBlock]Val
	lastIter ssa.Value
}

type loopInfo struct {
	head    *ssa.BasicBlock
	ordinal int
	body    map[*ssa.BasicBlock]bool
	spec    *LoopSpec
	preSt   *State
	headSt  *State
	decr0   Val
	hasDecr bool
}

func NewEnc(p *Prog, unit string) *Enc {
	return &Enc{P: p, Unit: unit, declSet: map[string]bool{}, base: map[string]Val{}, names: map[string]int{},
		assumedUsed: map[string]bool{}, unspecExtern: map[string]bool{}, abstractions: map[string]bool{}, inlined: map[string]bool{}, ghostVarsUsed: map[string]bool{}, contractsUsed: map[string]bool{}, initFactsDone: map[string]bool{}, revealed: map[string]bool{}, revealDone: map[string]bool{}, lemmasUsed: map[string]bool{}}
}

func (e *Enc) fresh(prefix string, s Sort) Val {
	e.counter++
	name := fmt.Sprintf("%s_%d", mangle(prefix), e.counter)
	e.decls = append(e.decls, fmt.Sprintf("(declare-const %s %s)", name, s))
	return Val{name, s}
}

func (e *Enc) declare(name string, s Sort) Val {
	if !e.declSet[name] {
		e.declSet[name] = true
		e.decls = append(e.decls, fmt.Sprintf("(declare-const %s %s)", name, s))
	}
	return Val{name, s}
}

func (e *Enc) fact(f Val) {
	if f.T == "true" {
		return
	}
	e.facts = append(e.facts, f.T)
}

func (e *Enc) assume(st *State, f Val) {
	e.fact(Implies(st.reach, f))
}

// name introduces a constant for a large term to keep formulas small.
func (e *Enc) name(prefix string, v Val) Val {
	if len(v.T) < 48 || strings.Contains(v.T, "!") {
		// (a term that mentions a bound variable - they are spelled name!depth - cannot be named by a
		// top-level constant)
		return v
	}
	c := e.fresh(prefix, v.S)
	e.fact(Eq(c, v))
	return c
}

func (e *Enc) heap(st *State, name string, s Sort) Val {
	if h, ok := st.heaps[name]; ok {
		return h
	}
	if ep := st.epochFor(name); ep != nil {
		// first use after a havoc event that covers this heap
		if _, ok := e.base[name]; !ok {
			e.base[name] = e.declare(name+"_0", s)
		}
		h := e.declare(fmt.Sprintf("%s_ep%d", name, ep.id), s)
		st.heaps[name] = h
		return h
	}
	if h, ok := e.base[name]; ok {
		return h
	}
	h := e.declare(name+"_0", s)
	e.base[name] = h
	if strings.HasPrefix(name, "H_") {
		e.heapWF(h, Val{"next_0", SInt})
	}
	return h
}

// heapWF: every reference stored in a heap points to an object allocated before `next`
// (a type invariant of Go memory; asserted for entry heaps and for heaps havocked at loop heads).
func (e *Enc) heapWF(h Val, next Val) {
	if !heapWFEnabled {
		return // costs a quantified fact per heap; currently no proof needs it
	}
	k, v := h.S.ArrayParts()
	if k != SLoc {
		return
	}
	l := Val{"l!", SLoc}
	var ref Val
	switch v {
	case SLoc:
		ref = LRef(Select(h, l))
	case SSlice:
		ref = LRef(SBase(Select(h, l)))
	case SIface:
		ref = LRef(IVal(Select(h, l)))
	case SFunc:
		ref = LRef(FEnv(Select(h, l)))
	default:
		return
	}
	body := And(Val{app("<=", "0", ref.T), SBool}, Val{app("<", ref.T, next.T), SBool})
	e.fact(quant("forall", []Val{l}, body, []string{Select(h, l).T}))
}

func (e *Enc) scalarHeap(st *State, s Sort) (string, Val) {
	return e.scalarHeapT(st, s, nil)
}

func (e *Enc) scalarHeapT(st *State, s Sort, t types.Type) (string, Val) {
	n := heapNameT(s, t)
	return n, e.heap(st, n, ArraySort(SLoc, s))
}

func (e *Enc) oblig(st *State, kind, label string, cond Val, pos token.Pos, tags []string, cl *Clause) *Oblig {
	if cond.T == "true" {
		// still counted: trivially discharged obligations are recorded for evidence
	}
	base := e.Unit + "/" + kind + "#" + label
	e.names[base]++
	name := base
	if n := e.names[base]; n > 1 {
		name = fmt.Sprintf("%s~%d", base, n)
	}
	if e.hasSplit {
		name = fmt.Sprintf("%s[%s=%d]", name, e.splitVar, e.splitVal)
	}
	o := &Oblig{Name: name, Kind: kind, Func: e.Unit, Tags: tags, Reach: st.reach, Cond: cond, NFacts: len(e.facts), NDecls: len(e.decls), Enc: e, Clause: cl}
	if pos.IsValid() {
		o.Pos = e.P.Fset.Position(pos)
	}
	e.obligs = append(e.obligs, o)
	return o
}

// check records an obligation and then assumes it (so later obligations are not duplicates of it).
func (e *Enc) check(st *State, kind, label string, cond Val, pos token.Pos) {
	if cond.T == "true" {
		return
	}
	e.oblig(st, kind, label, cond, pos, nil, nil)
	e.assume(st, cond)
}

// Query renders the SMT-LIB text of an obligation. Facts are sliced to the cone of
// influence of the goal: a fact is kept if it shares an uninterpreted constant with the goal
// or (transitively) with a kept fact. Dropping facts only weakens the hypotheses, so an
// `unsat` answer for the sliced query is an `unsat` answer for the full one.
func (o *Oblig) Query(timeoutMs int) string {
	e := o.Enc
	var b strings.Builder
	var goal string
	if o.IsCover {
		goal = And(o.Reach, o.Cond).T
	} else {
		goal = And(o.Reach, Not(o.Cond)).T
	}
	facts := e.facts[:o.NFacts]
	keep := make([]bool, len(facts))
	if noSlice || o.IsCover {
		for i := range keep {
			keep[i] = true
		}
	} else {
		declared := map[string]bool{}
		for _, d := range e.decls[:o.NDecls] {
			// (declare-const name sort)
			f := strings.Fields(d)
			if len(f) >= 2 {
				declared[f[1]] = true
			}
		}
		syms := func(s string) []string {
			var out []string
			i := 0
			for i < len(s) {
				c := s[i]
				if c == '_' || (c >= 'a' && c <= 'z') || (c >= 'A' && c <= 'Z') {
					j := i
					for j < len(s) && (s[j] == '_' || s[j] == '!' || s[j] == '.' || s[j] == '$' || (s[j] >= 'a' && s[j] <= 'z') || (s[j] >= 'A' && s[j] <= 'Z') || (s[j] >= '0' && s[j] <= '9')) {
						j++
					}
					if declared[s[i:j]] {
						out = append(out, s[i:j])
					}
					i = j
					continue
				}
				i++
			}
			return out
		}
		factSyms := make([][]string, len(facts))
		bySym := map[string][]int{}
		for i, f := range facts {
			factSyms[i] = syms(f)
			for _, s := range factSyms[i] {
				bySym[s] = append(bySym[s], i)
			}
			if len(factSyms[i]) == 0 {
				keep[i] = true // ground axioms
			}
		}
		reached := map[string]bool{}
		var work []string
		for _, s := range syms(goal) {
			if !reached[s] {
				reached[s] = true
				work = append(work, s)
			}
		}
		for len(work) > 0 {
			s := work[len(work)-1]
			work = work[:len(work)-1]
			for _, i := range bySym[s] {
				if keep[i] {
					continue
				}
				keep[i] = true
				for _, t := range factSyms[i] {
					if !reached[t] {
						reached[t] = true
						work = append(work, t)
					}
				}
			}
		}
	}
	for _, d := range e.decls[:o.NDecls] {
		b.WriteString(d + "\n")
	}
	for i, f := range facts {
		if keep[i] {
			b.WriteString("(assert " + f + ")\n")
		}
	}
	b.WriteString("(assert " + goal + ")\n")
	b.WriteString("(check-sat)\n")
	body := b.String()
	return "(set-option :produce-models true)\n(set-logic ALL)\n" + e.P.W.Preamble(body) + body
}

var noSlice = false
var heapWFEnabled = false

// queryAllDecls is Query with every declaration of the unit and the definitional facts
// added from index factsFrom on (used for model extraction, where entry-heap constants
// and named terms may have been introduced after the obligation was generated).
func (o *Oblig) queryAllDecls(factsFrom int) string {
	saved := o.NDecls
	o.NDecls = len(o.Enc.decls)
	q := o.Query(0)
	o.NDecls = saved
	var extra strings.Builder
	for _, f := range o.Enc.facts[factsFrom:] {
		extra.WriteString("(assert " + f + ")\n")
	}
	return strings.Replace(q, "(check-sat)\n", extra.String()+"(check-sat)\n", 1)
}

// ---------------------------------------------------------------------------
// source labels

func (p *Prog) fileOf(pos token.Pos) *ast.File {
	if !pos.IsValid() {
		return nil
	}
	tf := p.Fset.File(pos)
	if tf == nil {
		return nil
	}
	for _, pkg := range p.Pkgs {
		for _, f := range pkg.Syntax {
			if p.Fset.File(f.Pos()) == tf {
				return f
			}
		}
	}
	return nil
}

func (p *Prog) exprAt(pos token.Pos) string {
	f := p.fileOf(pos)
	if f == nil {
		return ""
	}
	path, _ := astutil.PathEnclosingInterval(f, pos, pos)
	if len(path) == 0 {
		return ""
	}
	n := path[0]
	if id, ok := n.(*ast.Ident); ok && len(path) > 1 {
		if sel, ok := path[1].(*ast.SelectorExpr); ok && sel.Sel == id {
			n = sel
		}
	}
	switch n.(type) {
	case ast.Expr:
	default:
		// statements: too large for a label
		if len(path) > 0 {
			if _, ok := n.(ast.Stmt); ok {
				var buf bytes.Buffer
				printer.Fprint(&buf, p.Fset, n)
				s := strings.Join(strings.Fields(buf.String()), " ")
				if len(s) > 40 {
					s = s[:40]
				}
				return s
			}
		}
		return ""
	}
	var buf bytes.Buffer
	printer.Fprint(&buf, p.Fset, n)
	s := strings.Join(strings.Fields(buf.String()), " ")
	if len(s) > 70 {
		s = s[:70]
	}
	return s
}

func (e *Enc) siteLabel(fr *Frame, what string, pos token.Pos) string {
	x := e.P.exprAt(pos)
	l := what
	if x != "" {
		l = what + "(" + x + ")"
	}
	if fr != nil && fr.prefix != "" {
		l = fr.prefix + l
	}
	return l
}

// ---------------------------------------------------------------------------
// validity (type invariants of values coming from memory, parameters, calls)

func (e *Enc) validFacts(st *State, v Val, t types.Type, depth int) []Val {
	var out []Val
	zero64 := BV(64, 0)
	big := BV(64, 1<<40)
	switch u := t.Underlying().(type) {
	case *types.Basic:
		if u.Info()&types.IsString != 0 {
			out = append(out, BVCmp("bvsge", StrLen(v), zero64), BVCmp("bvsle", StrLen(v), big))
			out = append(out, Eq(Val{app("=", v.T, "str_empty"), SBool}, Eq(StrLen(v), zero64)))
		}
		if u.Kind() == types.UnsafePointer {
			out = append(out, e.validLoc(st, v)...)
		}
	case *types.Pointer:
		out = append(out, e.validLoc(st, v)...)
	case *types.Slice:
		out = append(out, BVCmp("bvsge", SLen(v), zero64), BVCmp("bvsle", SLen(v), SCap(v)), BVCmp("bvsle", SCap(v), big))
		out = append(out, e.validLoc(st, SBase(v))...)
		out = append(out, BVCmp("bvsge", LIdx(SBase(v)), zero64), BVCmp("bvsle", LIdx(SBase(v)), big))
		out = append(out, Implies(Eq(LRef(SBase(v)), IntLit(0)), Eq(v, NilSlice)))
	case *types.Map, *types.Chan:
		out = append(out, Val{app("<=", "0", v.T), SBool}, Val{app("<", v.T, st.next.T), SBool})
	case *types.Interface:
		out = append(out, Val{app("<=", "0", ITyp(v).T), SBool})
		out = append(out, Implies(Eq(ITyp(v), IntLit(0)), Eq(v, NilIface)))
		out = append(out, e.validLoc(st, IVal(v))...)
	case *types.Signature:
		out = append(out, Val{app("<=", "0", FnID(v).T), SBool})
		out = append(out, Implies(Eq(FnID(v), IntLit(0)), Eq(v, NilFunc)))
		out = append(out, e.validLoc(st, FEnv(v))...)
	case *types.Struct:
		if depth > 3 {
			return out
		}
		si := e.P.W.StructOf(t)
		for _, f := range si.Fields {
			fv := Val{app(f.Sel, v.T), f.Sort}
			out = append(out, e.validFacts(st, fv, f.Type, depth+1)...)
		}
	}
	return out
}

func (e *Enc) validLoc(st *State, l Val) []Val {
	return []Val{
		Val{app("<=", "0", LRef(l).T), SBool},
		Val{app("<", LRef(l).T, st.next.T), SBool},
		Implies(Eq(LRef(l), IntLit(0)), Eq(l, NilLoc)),
	}
}

func (e *Enc) assumeValid(st *State, v Val, t types.Type) {
	fs := e.validFacts(st, v, t, 0)
	if len(fs) > 0 {
		e.assume(st, And(fs...))
	}
}

// ---------------------------------------------------------------------------
// heap access

func (e *Enc) load(st *State, loc Val, t types.Type) Val {
	w := e.P.W
	switch u := t.Underlying().(type) {
	case *types.Struct:
		si := w.StructOf(t)
		if len(si.Fields) == 0 {
			return Val{si.Ctor, Sort(si.Name)}
		}
		var as []string
		for _, f := range si.Fields {
			as = append(as, e.load(st, FieldLoc(loc, f.FID), f.Type).T)
		}
		return e.name("ld", Val{app(si.Ctor, as...), Sort(si.Name)})
	case *types.Array:
		es := w.SortOf(u.Elem())
		as := ArraySort(BVSort(64), es)
		if u.Len() <= 32 {
			arr := Val{fmt.Sprintf("((as const %s) %s)", as, w.ZeroOf(u.Elem()).T), as}
			for i := int64(0); i < u.Len(); i++ {
				arr = Store(arr, BV(64, uint64(i)), e.load(st, ElemLoc(loc, BV(64, uint64(i))), u.Elem()))
			}
			return e.name("ldarr", arr)
		}
		arr := e.fresh("ldarr", as)
		e.abstractions["load of large array value (contents unconstrained)"] = true
		return arr
	}
	s := w.SortOf(t)
	_, h := e.scalarHeapT(st, s, t)
	return Select(h, loc)
}

func (e *Enc) store(st *State, loc, v Val, t types.Type) {
	w := e.P.W
	switch u := t.Underlying().(type) {
	case *types.Struct:
		si := w.StructOf(t)
		for _, f := range si.Fields {
			e.store(st, FieldLoc(loc, f.FID), Val{app(f.Sel, v.T), f.Sort}, f.Type)
		}
		return
	case *types.Array:
		if u.Len() <= 32 {
			for i := int64(0); i < u.Len(); i++ {
				e.store(st, ElemLoc(loc, BV(64, uint64(i))), Select(v, BV(64, uint64(i))), u.Elem())
			}
			return
		}
		e.abstractions["store of large array value (ignored)"] = true
		return
	}
	s := w.SortOf(t)
	n, h := e.scalarHeapT(st, s, t)
	nh := e.fresh(n, h.S)
	e.fact(Eq(nh, Store(h, loc, v)))
	st.heaps[n] = nh
}

// alloc returns a fresh object location.
func (e *Enc) alloc(st *State, what string) Val {
	r := e.fresh("ref_"+what, SInt)
	e.fact(Implies(st.reach, Eq(r, st.next)))
	nn := e.fresh("next", SInt)
	e.fact(Eq(nn, Val{app("+", st.next.T, "1"), SInt}))
	st.next = nn
	return MkLoc(r, BV(64, 0), PNil)
}

// initZero stores zero values for type t at loc.
func (e *Enc) initZero(st *State, loc Val, t types.Type) {
	w := e.P.W
	if a, ok := t.Underlying().(*types.Array); ok {
		if a.Len() <= 32 {
			for i := int64(0); i < a.Len(); i++ {
				e.initZero(st, ElemLoc(loc, BV(64, uint64(i))), a.Elem())
			}
			return
		}
		// large arrays: quantified zero facts per leaf
		e.zeroRange(st, loc, BV(64, uint64(a.Len())), a.Elem())
		return
	}
	e.store(st, loc, w.ZeroOf(t), t)
}

// initGhost: mutexes inside a freshly allocated object are not held.
func (e *Enc) initGhost(st *State, loc Val, t types.Type, depth int) {
	if depth > 4 {
		return
	}
	if nt, ok := t.(*types.Named); ok && nt.Obj().Pkg() != nil && nt.Obj().Pkg().Path() == "sync" {
		for _, g := range []string{"held", "rheld"} {
			if _, declared := e.P.CS.GhostFields[g]; !declared {
				continue
			}
			if nt.Obj().Name() != "Mutex" && nt.Obj().Name() != "RWMutex" {
				continue
			}
			name := "G_" + g
			h := e.heap(st, name, ArraySort(SLoc, SBool))
			nh := e.fresh(name, h.S)
			e.fact(Eq(nh, Store(h, loc, False)))
			st.heaps[name] = nh
		}
		return
	}
	if stt, ok := t.Underlying().(*types.Struct); ok {
		si := e.P.W.StructOf(t)
		for i := 0; i < stt.NumFields(); i++ {
			e.initGhost(st, FieldLoc(loc, si.Fields[i].FID), stt.Field(i).Type(), depth+1)
		}
	}
}

// zeroRange sets n elements starting at base to zero using a quantified fact.
func (e *Enc) zeroRange(st *State, base, n Val, elem types.Type) {
	w := e.P.W
	for _, lf := range w.Leaves(elem) {
		hn, h := e.scalarHeapT(st, lf.Sort, lf.Type)
		nh := e.fresh(hn, h.S)
		l := Val{"l!", SLoc}
		in := e.inRange(l, base, n, lf.Path)
		body := Eq(Select(nh, l), Ite(in, w.ZeroOf(lf.Type), Select(h, l)))
		e.fact(quant("forall", []Val{l}, body, []string{Select(nh, l).T}))
		st.heaps[hn] = nh
	}
}

func pathWith(base Val, fids []int) Val {
	p := LPath(base)
	for _, f := range fids {
		p = PCons(p, f)
	}
	return p
}

// inRange: loc l is leaf `fids` of one of the n elements starting at base.
func (e *Enc) inRange(l, base, n Val, fids []int) Val {
	off := BVOp("bvsub", LIdx(l), LIdx(base))
	return And(Eq(LRef(l), LRef(base)), Eq(LPath(l), pathWith(base, fids)),
		BVCmp("bvsge", off, BV(64, 0)), BVCmp("bvslt", off, n))
}

// ---------------------------------------------------------------------------
// local cells

func (e *Enc) cellGet(st *State, a *ssa.Alloc) Val {
	if v, ok := st.cells[a]; ok {
		return v
	}
	// not yet executed on this path: unconstrained
	t := a.Type().(*types.Pointer).Elem()
	v := e.fresh("cell_"+a.Comment, e.P.W.SortOf(t))
	st.cells[a] = v
	return v
}

func (e *Enc) lrefLoad(st *State, lr *LocalRef) Val {
	cur := e.cellGet(st, lr.A)
	for _, s := range lr.Path {
		if s.field >= 0 {
			si := e.P.W.StructOf(s.typ)
			f := si.Fields[s.field]
			cur = Val{app(f.Sel, cur.T), f.Sort}
		} else {
			cur = Select(cur, s.idx)
		}
	}
	return cur
}

func (e *Enc) lrefStore(st *State, lr *LocalRef, v Val) {
	var upd func(cur Val, path []lstep) Val
	upd = func(cur Val, path []lstep) Val {
		if len(path) == 0 {
			return v
		}
		s := path[0]
		if s.field >= 0 {
			si := e.P.W.StructOf(s.typ)
			var as []string
			for i, f := range si.Fields {
				fv := Val{app(f.Sel, cur.T), f.Sort}
				if i == s.field {
					fv = upd(fv, path[1:])
				}
				as = append(as, fv.T)
			}
			return Val{app(si.Ctor, as...), Sort(si.Name)}
		}
		return Store(cur, s.idx, upd(Select(cur, s.idx), path[1:]))
	}
	nv := upd(e.cellGet(st, lr.A), lr.Path)
	st.cells[lr.A] = e.name("c_"+lr.A.Comment, nv)
}

// ---------------------------------------------------------------------------
// merging of states at joins

type edgeState struct {
	cond Val // reach of the edge
	st   *State
}

func (e *Enc) merge(edges []edgeState, label string) *State {
	if len(edges) == 1 {
		s := edges[0].st.clone()
		s.reach = edges[0].cond
		return s
	}
	var conds []Val
	for _, ed := range edges {
		conds = append(conds, ed.cond)
	}
	r := e.fresh("r_"+label, SBool)
	e.fact(Eq(r, Or(conds...)))
	out := &State{reach: r, cells: map[*ssa.Alloc]Val{}, heaps: map[string]Val{}, iters: map[ssa.Value]Val{}}
	// the epochs common to all branches stay in force (a common prefix: branches share their history)
	out.epochs = append([]*lazyEpoch{}, edges[0].st.epochs...)
	for _, ed := range edges[1:] {
		n := 0
		for n < len(out.epochs) && n < len(ed.st.epochs) && out.epochs[n] == ed.st.epochs[n] {
			n++
		}
		out.epochs = out.epochs[:n]
	}
	mergeVals := func(prefix string, vals []Val) Val {
		same := true
		for _, v := range vals[1:] {
			if v.T != vals[0].T {
				same = false
			}
		}
		if same {
			return vals[0]
		}
		m := e.fresh(prefix, vals[0].S)
		for i, v := range vals {
			e.fact(Implies(edges[i].cond, Eq(m, v)))
		}
		return m
	}
	// cells
	cellKeys := map[*ssa.Alloc]bool{}
	for _, ed := range edges {
		for k := range ed.st.cells {
			cellKeys[k] = true
		}
	}
	var cks []*ssa.Alloc
	for k := range cellKeys {
		cks = append(cks, k)
	}
	sort.Slice(cks, func(i, j int) bool {
		if cks[i].Parent() != cks[j].Parent() {
			return cks[i].Parent().String() < cks[j].Parent().String()
		}
		if cks[i].Pos() != cks[j].Pos() {
			return cks[i].Pos() < cks[j].Pos()
		}
		return cks[i].Name() < cks[j].Name()
	})
	for _, k := range cks {
		var vals []Val
		all := true
		for _, ed := range edges {
			v, ok := ed.st.cells[k]
			if !ok {
				all = false
				break
			}
			vals = append(vals, v)
		}
		if !all {
			continue // cell not live on every path: left unconstrained
		}
		out.cells[k] = mergeVals("m_"+k.Comment, vals)
	}
	heapKeys := map[string]bool{}
	for _, ed := range edges {
		for k := range ed.st.heaps {
			heapKeys[k] = true
		}
	}
	var hks []string
	for k := range heapKeys {
		hks = append(hks, k)
	}
	sort.Strings(hks)
	for _, k := range hks {
		var vals []Val
		for _, ed := range edges {
			v, ok := ed.st.heaps[k]
			if !ok {
				if ep := ed.st.epochFor(k); ep != nil {
					v = e.declare(fmt.Sprintf("%s_ep%d", k, ep.id), e.base[k].S)
				} else {
					v = e.base[k]
				}
			}
			vals = append(vals, v)
		}
		out.heaps[k] = mergeVals(k, vals)
	}
	ovKeys := map[string]bool{}
	for _, ed := range edges {
		for k := range ed.st.oldOv {
			ovKeys[k] = true
		}
	}
	for k := range ovKeys {
		var vals []Val
		for _, ed := range edges {
			v, ok := ed.st.oldOv[k]
			if !ok {
				v = e.base[k] // not rebased on that path: old() is the entry value
			}
			vals = append(vals, v)
		}
		if out.oldOv == nil {
			out.oldOv = map[string]Val{}
		}
		out.oldOv[k] = mergeVals(k+"_old", vals)
	}
	var nexts []Val
	for _, ed := range edges {
		nexts = append(nexts, ed.st.next)
	}
	out.next = mergeVals("next", nexts)
	// iterators
	itKeys := map[ssa.Value]bool{}
	for _, ed := range edges {
		for k := range ed.st.iters {
			itKeys[k] = true
		}
	}
	for _, k := range sortedValues(itKeys) {
		var vals []Val
		all := true
		for _, ed := range edges {
			v, ok := ed.st.iters[k]
			if !ok {
				all = false
				break
			}
			vals = append(vals, v)
		}
		if all {
			out.iters[k] = mergeVals("it", vals)
		}
	}
	itN := map[ssa.Value]bool{}
	for _, ed := range edges {
		for k := range ed.st.iterN {
			itN[k] = true
		}
	}
	for _, k := range sortedValues(itN) {
		var vals []Val
		all := true
		for _, ed := range edges {
			v, ok := ed.st.iterN[k]
			if !ok {
				all = false
				break
			}
			vals = append(vals, v)
		}
		if all {
			if out.iterN == nil {
				out.iterN = map[ssa.Value]Val{}
			}
			out.iterN[k] = mergeVals("itn", vals)
		}
	}
	// defers: stacks that differ (a defer inside a branch) are merged into guarded entries
	same := true
	for _, ed := range edges[1:] {
		if len(ed.st.defers) != len(edges[0].st.defers) {
			same = false
			break
		}
		for i := range ed.st.defers {
			if ed.st.defers[i].instr != edges[0].st.defers[i].instr || ed.st.defers[i].guard.T != edges[0].st.defers[i].guard.T {
				same = false
			}
		}
	}
	if same {
		out.defers = append([]deferred{}, edges[0].st.defers...)
	} else {
		// ordered union by first appearance; guard = OR over the edges that carry the entry
		var order []*ssa.Defer
		seen := map[*ssa.Defer]bool{}
		for _, ed := range edges {
			for _, d := range ed.st.defers {
				if !seen[d.instr] {
					seen[d.instr] = true
					order = append(order, d.instr)
				}
			}
		}
		for _, in := range order {
			var proto deferred
			var gs []Val
			for _, ed := range edges {
				for _, d := range ed.st.defers {
					if d.instr == in {
						proto = d
						g := d.guard
						if g.T == "" {
							g = True
						}
						gs = append(gs, And(ed.cond, g))
					}
				}
			}
			gv := e.fresh("dg", SBool)
			e.fact(Eq(gv, Or(gs...)))
			proto.guard = gv
			out.defers = append(out.defers, proto)
		}
	}
	return out
}

// abstractionFor returns the abstraction of ghost field `field` when loc is the receiver of the
// method being checked against an interface contract.
func (e *Enc) abstractionFor(field string, loc Val) *Abstraction {
	if e.absRecv.T == "" || (loc.T != e.absRecv.T && loc.T != e.absRecvBoxed.T) {
		return nil
	}
	for _, ab := range e.P.CS.Abstractions {
		if ab.Field != field {
			continue
		}
		t, _, err := (&EvalCtx{e: e, spec: ab.Spec}).resolveType(ab.OnType)
		if err != nil || t == nil {
			continue
		}
		if t.String() == e.absType {
			return ab
		}
	}
	return nil
}
