package main

// Conservative syntactic computation of what a loop body may modify.

import (
	"fmt"
	"go/types"
	"os"
	"strings"

	"golang.org/x/tools/go/ssa"
)

type modSet struct {
	cells     map[*ssa.Alloc]bool
	heaps     map[string]bool
	iters     map[ssa.Value]bool
	allHeaps  bool
	allScalar bool // every H_* heap, including ones not yet materialised
	allocs    bool
	// writes that initialise objects allocated inside the scanned region (fresh arrays, boxes,
	// closures, composite literals) are tracked apart: a heap not in nonFresh is written only at
	// such objects, so locations that existed before the region keep their contents in it
	nonFresh map[string]bool          // heaps with at least one write that may hit a pre-existing object
	region   map[*ssa.BasicBlock]bool // blocks of the loop being scanned (nil inside callees: all fresh)
}

func rootAlloc(v ssa.Value) *ssa.Alloc {
	for {
		switch x := v.(type) {
		case *ssa.Alloc:
			return x
		case *ssa.FieldAddr:
			v = x.X
		case *ssa.IndexAddr:
			v = x.X
		default:
			return nil
		}
	}
}

func (e *Enc) addLeafHeaps(ms *modSet, t types.Type) {
	e.addLeafHeapsF(ms, t, false)
}

// addLeafHeapsF: fresh = the write goes to an object allocated inside the scanned region.
func (e *Enc) addLeafHeapsF(ms *modSet, t types.Type, fresh bool) {
	if a, ok := t.Underlying().(*types.Array); ok {
		e.addLeafHeapsF(ms, a.Elem(), fresh)
		return
	}
	for _, lf := range e.P.W.Leaves(t) {
		if a, ok := lf.Type.Underlying().(*types.Array); ok {
			e.addLeafHeapsF(ms, a.Elem(), fresh)
			continue
		}
		n := heapNameT(lf.Sort, lf.Type)
		if ms.nonFresh == nil {
			ms.nonFresh = map[string]bool{}
		}
		if !fresh {
			ms.nonFresh[n] = true
		}
		ms.heaps[n] = true
	}
}

func (e *Enc) addScalarHeaps(ms *modSet) {
	if os.Getenv("GOVC_DEBUG_SCALAR") != "" {
		fmt.Fprintf(os.Stderr, "scalar havoc in %s (call %v)\n", e.Unit, e.dbgCall)
	}
	for n := range e.base {
		if strings.HasPrefix(n, "H_") {
			ms.heaps[n] = true
		}
	}
	// also heaps not yet materialised
	ms.allScalar = true
}

func (e *Enc) loopModSet(fr *Frame, li *loopInfo) *modSet {
	ms := &modSet{cells: map[*ssa.Alloc]bool{}, heaps: map[string]bool{}, iters: map[ssa.Value]bool{}, allocs: true}
	seen := map[*ssa.Function]bool{}
	ms.region = li.body
	for b := range li.body {
		e.scanBlock(ms, b, seen, true)
	}
	return ms
}

func (e *Enc) scanFunc(ms *modSet, fn *ssa.Function, seen map[*ssa.Function]bool) {
	if seen[fn] {
		return
	}
	seen[fn] = true
	for _, b := range fn.Blocks {
		e.scanBlock(ms, b, seen, false)
	}
	for _, af := range fn.AnonFuncs {
		e.scanFunc(ms, af, seen)
	}
}

func (e *Enc) scanBlock(ms *modSet, b *ssa.BasicBlock, seen map[*ssa.Function]bool, top bool) {
	for _, in := range b.Instrs {
		switch in := in.(type) {
		case *ssa.Store:
			a := rootAlloc(in.Addr)
			if a != nil && !a.Heap {
				if top {
					ms.cells[a] = true
				}
				continue
			}
			// a store into an object allocated inside the region (or inside a callee run by it)
			fresh := a != nil && a.Heap && (!top || ms.region[a.Block()])
			e.addLeafHeapsF(ms, in.Val.Type(), fresh)
		case *ssa.Alloc:
			if in.Heap {
				e.addLeafHeapsF(ms, in.Type().(*types.Pointer).Elem(), true)
			} else if top {
				ms.cells[in] = true
			}
		case *ssa.MapUpdate:
			mt := in.Map.Type().Underlying().(*types.Map)
			e.addMapHeaps(ms, mt)
		case *ssa.MakeMap:
			e.addMapHeaps(ms, in.Type().Underlying().(*types.Map))
		case *ssa.MakeSlice:
			e.addLeafHeapsF(ms, in.Type().Underlying().(*types.Slice).Elem(), true)
		case *ssa.MakeInterface:
			if !isPointerShaped(in.X.Type()) {
				e.addLeafHeapsF(ms, in.X.Type(), true)
			}
		case *ssa.MakeClosure:
			for _, bnd := range in.Bindings {
				e.addLeafHeapsF(ms, bnd.Type(), true)
			}
		case *ssa.Convert:
			ms.heaps["H_bv8"] = true
		case *ssa.Next:
			ms.iters[in.Iter] = true
		case *ssa.Call:
			e.scanCall(ms, in.Common(), seen)
		case *ssa.Defer:
			e.scanCall(ms, in.Common(), seen)
		case *ssa.Go:
			// ownership tokens transferred by the spawn are written by it
			if callee := in.Common().StaticCallee(); callee != nil {
				target := callee
				if strings.HasSuffix(callee.Name(), "$bound") {
					if fo, ok := callee.Object().(*types.Func); ok {
						if t := e.P.SSA.FuncValue(fo); t != nil {
							target = t
						}
					}
				}
				if fc, ok := e.P.CS.Funcs[funcKey(target)]; ok {
					for _, tr := range fc.Transfers {
						if ix, ok := tr.(*SIndex); ok {
							if id, ok := ix.X.(*SIdent); ok {
								ms.heaps["GV_"+id.Name] = true
							}
						}
					}
				}
			}
		}
	}
}

func (e *Enc) addMapHeaps(ms *modSet, mt *types.Map) {
	w := e.P.W
	ks := w.SortOf(mt.Key())
	ms.heaps["MD_"+mangle(string(ks))] = true
	ms.heaps["ML"] = true
	if _, isStruct := mt.Elem().Underlying().(*types.Struct); !isStruct {
		vs := w.SortOf(mt.Elem())
		ms.heaps["MV_"+mangle(string(ks))+"_"+mangle(string(vs))] = true
	}
}

// staticTargetType types a modifies target from the callee's signature (parameters and
// receiver), without evaluating it: x, x.f.g, *x, elems(x).
func staticTargetType(sig *types.Signature, x SExpr) types.Type {
	if sig == nil {
		return nil
	}
	switch t := x.(type) {
	case *SIdent:
		if sig.Recv() != nil && (sig.Recv().Name() == t.Name || t.Name == "self") {
			return sig.Recv().Type()
		}
		for i := 0; i < sig.Params().Len(); i++ {
			if sig.Params().At(i).Name() == t.Name || fmt.Sprintf("arg%d", i) == t.Name {
				return sig.Params().At(i).Type()
			}
		}
	case *SSelector:
		bt := staticTargetType(sig, t.X)
		if bt == nil {
			return nil
		}
		if p, ok := bt.Underlying().(*types.Pointer); ok {
			bt = p.Elem()
		}
		idx, ts, ok := findField(bt, t.Sel)
		if !ok {
			return nil
		}
		st := ts[len(ts)-1].Underlying().(*types.Struct)
		return st.Field(idx[len(idx)-1]).Type()
	case *SUnary:
		if t.Op == "*" {
			if bt := staticTargetType(sig, t.X); bt != nil {
				if p, ok := bt.Underlying().(*types.Pointer); ok {
					return p.Elem()
				}
			}
		}
	case *SCall:
		if id, ok := t.Fun.(*SIdent); ok && id.Name == "elems" && len(t.Args) == 1 {
			if bt := staticTargetType(sig, t.Args[0]); bt != nil {
				if s, ok := bt.Underlying().(*types.Slice); ok {
					return s.Elem()
				}
			}
		}
	}
	return nil
}

func (e *Enc) scanContract(ms *modSet, fc *FuncContract) {
	e.scanContractSig(ms, fc, nil)
}

func (e *Enc) scanContractSig(ms *modSet, fc *FuncContract, sig *types.Signature) {
	e.scanContractCall(ms, fc, sig, nil)
}

// pointeeTypes resolves `pointees(param)` at a call: the element types of the pointers that the
// caller packed into the (variadic) slice argument, found syntactically (stores into the slice's
// backing array in the caller). nil when they cannot be determined.
func pointeeTypes(c *ssa.CallCommon, sig *types.Signature, param string) []types.Type {
	if c == nil || sig == nil {
		return nil
	}
	idx := -1
	for i := 0; i < sig.Params().Len(); i++ {
		if sig.Params().At(i).Name() == param {
			idx = i
		}
	}
	if idx < 0 {
		return nil
	}
	args := c.Args
	if !c.IsInvoke() && sig.Recv() != nil {
		if len(args) == sig.Params().Len()+1 {
			args = args[1:]
		}
	}
	if idx >= len(args) {
		return nil
	}
	sl, ok := args[idx].(*ssa.Slice)
	if !ok {
		return nil
	}
	arr, ok := sl.X.(*ssa.Alloc)
	if !ok {
		return nil
	}
	var out []types.Type
	for _, ref := range *arr.Referrers() {
		switch r := ref.(type) {
		case *ssa.Slice:
			if r != sl {
				return nil
			}
		case *ssa.IndexAddr:
			for _, rr := range *r.Referrers() {
				st, ok := rr.(*ssa.Store)
				if !ok {
					return nil
				}
				v := st.Val
				if mi, ok := v.(*ssa.MakeInterface); ok {
					v = mi.X
				}
				pt, ok := v.Type().Underlying().(*types.Pointer)
				if !ok {
					return nil
				}
				out = append(out, pt.Elem())
			}
		default:
			return nil
		}
	}
	return out
}

func (e *Enc) scanContractCall(ms *modSet, fc *FuncContract, sig *types.Signature, call *ssa.CallCommon) {
	e.dbgCall = fc.Key
	if fc.Pure {
		return
	}
	if !fc.HasMod {
		ms.allHeaps = true
		return
	}
	for _, m := range fc.Modifies {
		switch t := m.(type) {
		case *SIdent:
			if t.Name == "everything" {
				ms.allHeaps = true
				continue
			}
			if _, ok := e.P.CS.GhostVars[t.Name]; ok {
				ms.heaps["GV_"+t.Name] = true
				continue
			}
			e.addScalarHeaps(ms)
		case *SCall:
			if id, ok := t.Fun.(*SIdent); ok {
				if _, ok := e.P.CS.GhostFields[id.Name]; ok {
					ms.heaps["G_"+id.Name] = true
					continue
				}
				if id.Name == "pointees" && len(t.Args) == 1 {
					if pid, ok := t.Args[0].(*SIdent); ok {
						if tys := pointeeTypes(call, sig, pid.Name); tys != nil {
							for _, ty := range tys {
								e.addLeafHeaps(ms, ty)
							}
							continue
						}
					}
					ms.allHeaps = true
					continue
				}
				if id.Name == "mapc" {
					for n := range e.base {
						if strings.HasPrefix(n, "MD_") || strings.HasPrefix(n, "MV_") {
							ms.heaps[n] = true
						}
					}
					ms.heaps["ML"] = true
					ms.heaps["MD_(_ BitVec 8)"] = true
					continue
				}
			}
			if tt := staticTargetType(sig, m); tt != nil {
				e.addLeafHeaps(ms, tt)
			} else {
				e.addScalarHeaps(ms)
			}
		default:
			if tt := staticTargetType(sig, m); tt != nil {
				e.addLeafHeaps(ms, tt)
			} else {
				e.addScalarHeaps(ms)
			}
		}
	}
}

func (e *Enc) scanCall(ms *modSet, c *ssa.CallCommon, seen map[*ssa.Function]bool) {
	if c.IsInvoke() {
		if fc, ok := e.P.CS.Funcs[c.Method.FullName()]; ok {
			e.scanContractCall(ms, fc, c.Signature(), c)
			return
		}
		e.scanExtern(ms, c.Method.FullName())
		return
	}
	switch callee := c.Value.(type) {
	case *ssa.Builtin:
		switch callee.Name() {
		case "append":
			e.addLeafHeaps(ms, c.Args[0].Type().Underlying().(*types.Slice).Elem())
		case "copy":
			e.addLeafHeaps(ms, c.Args[0].Type().Underlying().(*types.Slice).Elem())
		case "delete":
			e.addMapHeaps(ms, c.Args[0].Type().Underlying().(*types.Map))
		}
	case *ssa.Function:
		e.scanStaticCall(ms, callee, seen, c)
	case *ssa.MakeClosure:
		e.scanStatic(ms, callee.Fn.(*ssa.Function), seen)
	default:
		if named, ok := c.Value.Type().(*types.Named); ok {
			key := named.Obj().Pkg().Path() + "." + named.Obj().Name()
			if fc, ok := e.P.CS.Types[key]; ok {
				e.scanContract(ms, fc)
				return
			}
		}
		ms.allHeaps = true
	}
}

func (e *Enc) scanStatic(ms *modSet, fn *ssa.Function, seen map[*ssa.Function]bool) {
	e.scanStaticCall(ms, fn, seen, nil)
}

func (e *Enc) scanStaticCall(ms *modSet, fn *ssa.Function, seen map[*ssa.Function]bool, call *ssa.CallCommon) {
	key := funcKey(fn)
	switch key {
	case "(encoding/binary.bigEndian).PutUint64", "(encoding/binary.bigEndian).PutUint32", "(encoding/binary.bigEndian).PutUint16":
		ms.heaps["H_bv8"] = true
		if ms.nonFresh == nil {
			ms.nonFresh = map[string]bool{}
		}
		ms.nonFresh["H_bv8"] = true
		return
	case "(encoding/binary.bigEndian).Uint64", "(encoding/binary.bigEndian).Uint32", "(encoding/binary.bigEndian).Uint16",
		"math/bits.Add64", "math/bits.Sub64", "math/bits.Mul64":
		return
	}
	if fc, ok := e.P.CS.Funcs[key]; ok && !fc.Inline {
		e.scanContractCall(ms, fc, fn.Signature, call)
		return
	}
	if fn.Blocks != nil && (e.inRepo(fn) || fn.Synthetic != "" || fn.Parent() != nil) {
		e.scanFunc(ms, fn, seen)
		return
	}
	e.scanExtern(ms, key)
}

func (e *Enc) scanExtern(ms *modSet, key string) {
	for _, ex := range e.P.CS.Externs {
		if matchPattern(ex.Pattern, key) {
			if ex.Pure {
				return
			}
		}
	}
	ms.allHeaps = true
}
