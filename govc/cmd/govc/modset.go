package main

// Conservative syntactic computation of what a loop body may modify.

import (
	"go/types"
	"strings"

	"golang.org/x/tools/go/ssa"
)

type modSet struct {
	cells    map[*ssa.Alloc]bool
	heaps    map[string]bool
	iters    map[ssa.Value]bool
	allHeaps bool
	allocs   bool
}

func rootAlloc(v ssa.Value) *ssa.Alloc {
	for {
		switch x := v.(type) {
		case *ssa.Alloc:
			return x
		case *ssa.FieldAddr:
			v = x.X
		case *ssa.IndexAddr:
			v = x.X
		default:
			return nil
		}
	}
}

func (e *Enc) addLeafHeaps(ms *modSet, t types.Type) {
	if a, ok := t.Underlying().(*types.Array); ok {
		e.addLeafHeaps(ms, a.Elem())
		return
	}
	for _, lf := range e.P.W.Leaves(t) {
		if a, ok := lf.Type.Underlying().(*types.Array); ok {
			e.addLeafHeaps(ms, a.Elem())
			continue
		}
		ms.heaps[heapName(lf.Sort)] = true
	}
}

func (e *Enc) addScalarHeaps(ms *modSet) {
	for n := range e.base {
		if strings.HasPrefix(n, "H_") {
			ms.heaps[n] = true
		}
	}
	// also heaps not yet materialised: mark all common ones
	for _, n := range []string{"H_bv8", "H_bv16", "H_bv32", "H_bv64", "H_bool", "H_str", "H_loc", "H_slice", "H_ref", "H_iface", "H_func"} {
		ms.heaps[n] = true
	}
}

func (e *Enc) loopModSet(fr *Frame, li *loopInfo) *modSet {
	ms := &modSet{cells: map[*ssa.Alloc]bool{}, heaps: map[string]bool{}, iters: map[ssa.Value]bool{}, allocs: true}
	seen := map[*ssa.Function]bool{}
	for b := range li.body {
		e.scanBlock(ms, b, seen, true)
	}
	return ms
}

func (e *Enc) scanFunc(ms *modSet, fn *ssa.Function, seen map[*ssa.Function]bool) {
	if seen[fn] {
		return
	}
	seen[fn] = true
	for _, b := range fn.Blocks {
		e.scanBlock(ms, b, seen, false)
	}
	for _, af := range fn.AnonFuncs {
		e.scanFunc(ms, af, seen)
	}
}

func (e *Enc) scanBlock(ms *modSet, b *ssa.BasicBlock, seen map[*ssa.Function]bool, top bool) {
	for _, in := range b.Instrs {
		switch in := in.(type) {
		case *ssa.Store:
			if a := rootAlloc(in.Addr); a != nil && !a.Heap {
				if top {
					ms.cells[a] = true
				}
				continue
			}
			e.addLeafHeaps(ms, in.Val.Type())
		case *ssa.Alloc:
			if in.Heap {
				e.addLeafHeaps(ms, in.Type().(*types.Pointer).Elem())
			} else if top {
				ms.cells[in] = true
			}
		case *ssa.MapUpdate:
			mt := in.Map.Type().Underlying().(*types.Map)
			e.addMapHeaps(ms, mt)
		case *ssa.MakeMap:
			e.addMapHeaps(ms, in.Type().Underlying().(*types.Map))
		case *ssa.MakeSlice:
			e.addLeafHeaps(ms, in.Type().Underlying().(*types.Slice).Elem())
		case *ssa.MakeInterface:
			if !isPointerShaped(in.X.Type()) {
				e.addLeafHeaps(ms, in.X.Type())
			}
		case *ssa.MakeClosure:
			for _, bnd := range in.Bindings {
				e.addLeafHeaps(ms, bnd.Type())
			}
		case *ssa.Convert:
			ms.heaps["H_bv8"] = true
		case *ssa.Next:
			ms.iters[in.Iter] = true
		case *ssa.Call:
			e.scanCall(ms, in.Common(), seen)
		case *ssa.Defer:
			e.scanCall(ms, in.Common(), seen)
		case *ssa.Go:
		}
	}
}

func (e *Enc) addMapHeaps(ms *modSet, mt *types.Map) {
	w := e.P.W
	ks := w.SortOf(mt.Key())
	ms.heaps["MD_"+mangle(string(ks))] = true
	ms.heaps["ML"] = true
	if _, isStruct := mt.Elem().Underlying().(*types.Struct); !isStruct {
		vs := w.SortOf(mt.Elem())
		ms.heaps["MV_"+mangle(string(ks))+"_"+mangle(string(vs))] = true
	}
}

func (e *Enc) scanContract(ms *modSet, fc *FuncContract) {
	if fc.Pure {
		return
	}
	if !fc.HasMod {
		ms.allHeaps = true
		return
	}
	for _, m := range fc.Modifies {
		switch t := m.(type) {
		case *SIdent:
			if t.Name == "everything" {
				ms.allHeaps = true
				continue
			}
			if _, ok := e.P.CS.GhostVars[t.Name]; ok {
				ms.heaps["GV_"+t.Name] = true
				continue
			}
			e.addScalarHeaps(ms)
		case *SCall:
			if id, ok := t.Fun.(*SIdent); ok {
				if _, ok := e.P.CS.GhostFields[id.Name]; ok {
					ms.heaps["G_"+id.Name] = true
					continue
				}
				if id.Name == "mapc" {
					for n := range e.base {
						if strings.HasPrefix(n, "MD_") || strings.HasPrefix(n, "MV_") {
							ms.heaps[n] = true
						}
					}
					ms.heaps["ML"] = true
					ms.heaps["MD_(_ BitVec 8)"] = true
					continue
				}
			}
			e.addScalarHeaps(ms)
		default:
			e.addScalarHeaps(ms)
		}
	}
}

func (e *Enc) scanCall(ms *modSet, c *ssa.CallCommon, seen map[*ssa.Function]bool) {
	if c.IsInvoke() {
		if fc, ok := e.P.CS.Funcs[c.Method.FullName()]; ok {
			e.scanContract(ms, fc)
			return
		}
		e.scanExtern(ms, c.Method.FullName())
		return
	}
	switch callee := c.Value.(type) {
	case *ssa.Builtin:
		switch callee.Name() {
		case "append":
			e.addLeafHeaps(ms, c.Args[0].Type().Underlying().(*types.Slice).Elem())
		case "copy":
			e.addLeafHeaps(ms, c.Args[0].Type().Underlying().(*types.Slice).Elem())
		case "delete":
			e.addMapHeaps(ms, c.Args[0].Type().Underlying().(*types.Map))
		}
	case *ssa.Function:
		e.scanStatic(ms, callee, seen)
	case *ssa.MakeClosure:
		e.scanStatic(ms, callee.Fn.(*ssa.Function), seen)
	default:
		if named, ok := c.Value.Type().(*types.Named); ok {
			key := named.Obj().Pkg().Path() + "." + named.Obj().Name()
			if fc, ok := e.P.CS.Types[key]; ok {
				e.scanContract(ms, fc)
				return
			}
		}
		ms.allHeaps = true
	}
}

func (e *Enc) scanStatic(ms *modSet, fn *ssa.Function, seen map[*ssa.Function]bool) {
	key := funcKey(fn)
	switch key {
	case "(encoding/binary.bigEndian).PutUint64", "(encoding/binary.bigEndian).PutUint32", "(encoding/binary.bigEndian).PutUint16":
		ms.heaps["H_bv8"] = true
		return
	case "(encoding/binary.bigEndian).Uint64", "(encoding/binary.bigEndian).Uint32", "(encoding/binary.bigEndian).Uint16",
		"math/bits.Add64", "math/bits.Sub64", "math/bits.Mul64":
		return
	}
	if fc, ok := e.P.CS.Funcs[key]; ok && !fc.Inline {
		e.scanContract(ms, fc)
		return
	}
	if fn.Blocks != nil && (e.inRepo(fn) || fn.Synthetic != "" || fn.Parent() != nil) {
		e.scanFunc(ms, fn, seen)
		return
	}
	e.scanExtern(ms, key)
}

func (e *Enc) scanExtern(ms *modSet, key string) {
	for _, ex := range e.P.CS.Externs {
		if matchPattern(ex.Pattern, key) {
			if ex.Pure {
				return
			}
		}
	}
	ms.allHeaps = true
}
