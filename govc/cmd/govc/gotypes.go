package main

// Mapping of Go types to SMT sorts, struct datatypes, field ids, type tags.

import (
	"fmt"
	"go/types"
	"sort"
	"strings"
)

type StructInfo struct {
	Name   string // SMT datatype name
	Ctor   string
	Fields []StructField
	Key    string
}

type StructField struct {
	Name string
	Sel  string // selector function name
	Type types.Type
	Sort Sort
	FID  int
}

type World struct {
	structs     map[string]*StructInfo
	structOrder []*StructInfo
	fieldIDs    map[string]int
	fieldNames  map[int]string
	typeTags    map[string]int
	tagTypes    map[int]types.Type
	funcIDs     map[string]int
	funcByID    map[int]string
	strLits     map[string]string // literal -> const name
	strLitIDs   map[int]bool
	strOrder    []string
	uninterp    map[string]string // name -> declaration (declare-fun ...)
	uninterpOrd []string
	sizes       types.Sizes
}

func NewWorld() *World {
	return &World{
		structs:    map[string]*StructInfo{},
		fieldIDs:   map[string]int{},
		fieldNames: map[int]string{},
		typeTags:   map[string]int{},
		tagTypes:   map[int]types.Type{},
		funcIDs:    map[string]int{},
		funcByID:   map[int]string{},
		strLits:    map[string]string{},
		uninterp:   map[string]string{},
		sizes:      types.SizesFor("gc", "amd64"),
	}
}

func typeKey(t types.Type) string {
	return types.TypeString(t, nil)
}

func intWidth(b *types.Basic) (int, bool) { // width, signed
	switch b.Kind() {
	case types.Int8:
		return 8, true
	case types.Int16:
		return 16, true
	case types.Int32:
		return 32, true
	case types.Int64, types.Int, types.UntypedInt, types.UntypedRune:
		return 64, true
	case types.Uint8:
		return 8, false
	case types.Uint16:
		return 16, false
	case types.Uint32:
		return 32, false
	case types.Uint64, types.Uint, types.Uintptr:
		return 64, false
	}
	return 0, false
}

func isSigned(t types.Type) bool {
	if b, ok := t.Underlying().(*types.Basic); ok {
		_, s := intWidth(b)
		return s
	}
	return false
}

func isIntType(t types.Type) bool {
	if b, ok := t.Underlying().(*types.Basic); ok {
		return b.Info()&types.IsInteger != 0
	}
	return false
}

func (w *World) SortOf(t types.Type) Sort {
	switch u := t.Underlying().(type) {
	case *types.Basic:
		if u.Info()&types.IsInteger != 0 {
			n, _ := intWidth(u)
			return BVSort(n)
		}
		if u.Info()&types.IsBoolean != 0 {
			return SBool
		}
		if u.Info()&types.IsString != 0 {
			return SStr
		}
		if u.Info()&types.IsFloat != 0 || u.Info()&types.IsComplex != 0 {
			return SF64
		}
		if u.Kind() == types.UnsafePointer {
			return SLoc
		}
		if u.Kind() == types.UntypedNil {
			return SLoc
		}
		panic("SortOf: basic " + u.String())
	case *types.Pointer:
		return SLoc
	case *types.Slice:
		return SSlice
	case *types.Map, *types.Chan:
		return SInt
	case *types.Interface:
		return SIface
	case *types.Signature:
		return SFunc
	case *types.Struct:
		return Sort(w.StructOf(t).Name)
	case *types.Array:
		return ArraySort(BVSort(64), w.SortOf(u.Elem()))
	case *types.TypeParam:
		return SIface
	}
	panic(fmt.Sprintf("SortOf: unsupported type %s (%T)", t, t.Underlying()))
}

func (w *World) StructOf(t types.Type) *StructInfo {
	key := typeKey(t)
	if _, ok := t.(*types.Named); !ok {
		if _, ok := t.(*types.Alias); !ok {
			key = typeKey(t.Underlying())
		}
	}
	if si, ok := w.structs[key]; ok {
		return si
	}
	st := t.Underlying().(*types.Struct)
	name := "S_" + mangle(key)
	if len(name) > 80 {
		name = fmt.Sprintf("%s_%d", name[:60], hashStr(key))
	}
	si := &StructInfo{Name: name, Ctor: "mk_" + name, Key: key}
	for i := 0; i < st.NumFields(); i++ {
		f := st.Field(i)
		fs := w.SortOf(f.Type()) // may register nested structs first
		fid := w.fieldID(key, i, f.Name())
		si.Fields = append(si.Fields, StructField{
			Name: f.Name(), Sel: fmt.Sprintf("%s_f%d", name, i), Type: f.Type(), Sort: fs, FID: fid,
		})
	}
	w.structs[key] = si
	w.structOrder = append(w.structOrder, si)
	return si
}

func (w *World) fieldID(structKey string, idx int, name string) int {
	k := fmt.Sprintf("%s#%d", structKey, idx)
	if id, ok := w.fieldIDs[k]; ok {
		return id
	}
	// ids are a function of the key (not of the order in which units happen to be encoded), so that
	// the text of a query - and with it the solvers' behaviour - is the same on every run
	id := stableID(k, func(i int) bool { _, taken := w.fieldNames[i]; return taken })
	w.fieldIDs[k] = id
	w.fieldNames[id] = structKey + "." + name
	return id
}

// GhostFieldID returns a field id for a ghost field name (used in paths for boxed values etc.)
func (w *World) GhostFieldID(name string) int {
	return w.fieldID("$ghost", len(name)*1000+int(hashStr(name)%1000), name)
}

// stableID: a positive id derived from the key alone (FNV hash, 30 bits); a collision with an id
// already taken falls back to the next free one.
func stableID(key string, taken func(int) bool) int {
	id := int(hashStr(key)&0x3fffffff) + 1
	for taken(id) {
		id++
	}
	return id
}

func hashStr(s string) uint32 {
	var h uint32 = 2166136261
	for i := 0; i < len(s); i++ {
		h ^= uint32(s[i])
		h *= 16777619
	}
	return h
}

func (w *World) TypeTag(t types.Type) int {
	k := typeKey(t)
	if id, ok := w.typeTags[k]; ok {
		return id
	}
	id := stableID(k, func(i int) bool { _, taken := w.tagTypes[i]; return taken })
	w.typeTags[k] = id
	w.tagTypes[id] = t
	return id
}

func (w *World) FuncID(name string) int {
	if id, ok := w.funcIDs[name]; ok {
		return id
	}
	id := stableID(name, func(i int) bool { _, taken := w.funcByID[i]; return taken })
	w.funcIDs[name] = id
	w.funcByID[id] = name
	return id
}

func (w *World) StrLit(s string) Val {
	if s == "" {
		return Val{"str_empty", SStr}
	}
	if c, ok := w.strLits[s]; ok {
		return Val{c, SStr}
	}
	if w.strLitIDs == nil {
		w.strLitIDs = map[int]bool{}
	}
	n := stableID("lit:"+s, func(i int) bool { return w.strLitIDs[i] })
	w.strLitIDs[n] = true
	c := fmt.Sprintf("strlit_%d", n)
	w.strLits[s] = c
	w.strOrder = append(w.strOrder, s)
	return Val{c, SStr}
}

// Uninterp declares (once) an uninterpreted function and returns its name.
func (w *World) Uninterp(name string, args []Sort, ret Sort) string {
	if _, ok := w.uninterp[name]; ok {
		return name
	}
	var as []string
	for _, a := range args {
		as = append(as, string(a))
	}
	w.uninterp[name] = fmt.Sprintf("(declare-fun %s (%s) %s)", name, strings.Join(as, " "), ret)
	w.uninterpOrd = append(w.uninterpOrd, name)
	return name
}

// Preamble renders the prelude plus the world-level declarations that the query text `body`
// refers to (struct datatypes with their dependencies, string literals, uninterpreted
// functions), in a canonical order - so a query does not depend on which other units were
// encoded before it in the same run.
func (w *World) Preamble(body string) string {
	var b strings.Builder
	b.WriteString(prelude)
	used := map[*StructInfo]bool{}
	var mark func(si *StructInfo)
	mark = func(si *StructInfo) {
		if used[si] {
			return
		}
		used[si] = true
		for _, f := range si.Fields {
			for _, other := range w.structOrder {
				if strings.Contains(string(f.Sort), other.Name) {
					mark(other)
				}
			}
		}
	}
	// uninterpreted functions the body uses: their signatures may name struct sorts too
	var decls strings.Builder
	for _, n := range w.uninterpOrd {
		if containsSym(body, n) {
			decls.WriteString(w.uninterp[n])
			decls.WriteByte('\n')
		}
	}
	scan := body + decls.String()
	for _, si := range w.structOrder {
		if strings.Contains(scan, si.Name) {
			mark(si)
		}
	}
	// declaration order: by name, each struct after the structs its fields mention
	var usedList []*StructInfo
	for si := range used {
		usedList = append(usedList, si)
	}
	sort.Slice(usedList, func(i, j int) bool { return usedList[i].Name < usedList[j].Name })
	emitted := map[*StructInfo]bool{}
	var emit func(si *StructInfo)
	emit = func(si *StructInfo) {
		if emitted[si] {
			return
		}
		emitted[si] = true
		for _, f := range si.Fields {
			for _, other := range usedList {
				if other != si && strings.Contains(string(f.Sort), other.Name) {
					emit(other)
				}
			}
		}
		fmt.Fprintf(&b, "(declare-datatypes ((%s 0)) (((%s", si.Name, si.Ctor)
		for _, f := range si.Fields {
			fmt.Fprintf(&b, " (%s %s)", f.Sel, f.Sort)
		}
		b.WriteString("))))\n")
	}
	for _, si := range usedList {
		emit(si)
	}
	var lits []string
	strs := append([]string{}, w.strOrder...)
	sort.Strings(strs)
	for _, s := range strs {
		c := w.strLits[s]
		if !containsSym(body, c) {
			continue
		}
		fmt.Fprintf(&b, "(declare-const %s Str) ; %q\n", c, s)
		fmt.Fprintf(&b, "(assert (= (str_len %s) %s))\n", c, BV(64, uint64(len(s))).T)
		lits = append(lits, c)
	}
	if len(lits) > 0 {
		lits = append(lits, "str_empty")
		sort.Strings(lits)
		fmt.Fprintf(&b, "(assert (distinct %s))\n", strings.Join(lits, " "))
	}
	names := append([]string{}, w.uninterpOrd...)
	sort.Strings(names)
	for _, n := range names {
		if containsSym(body, n) {
			b.WriteString(w.uninterp[n] + "\n")
		}
	}
	return b.String()
}

// containsSym: s contains sym as a whole token.
func containsSym(s, sym string) bool {
	i := 0
	for {
		j := strings.Index(s[i:], sym)
		if j < 0 {
			return false
		}
		j += i
		end := j + len(sym)
		okL := j == 0 || !isSymChar(s[j-1])
		okR := end >= len(s) || !isSymChar(s[end])
		if okL && okR {
			return true
		}
		i = j + 1
	}
}

func isSymChar(c byte) bool {
	return c == '_' || c == '!' || c == '.' || c == '$' || (c >= 'a' && c <= 'z') || (c >= 'A' && c <= 'Z') || (c >= '0' && c <= '9')
}

// ZeroOf returns the zero value of a Go type.
func (w *World) ZeroOf(t types.Type) Val {
	switch u := t.Underlying().(type) {
	case *types.Basic:
		if u.Info()&types.IsInteger != 0 {
			n, _ := intWidth(u)
			return BV(n, 0)
		}
		if u.Info()&types.IsBoolean != 0 {
			return False
		}
		if u.Info()&types.IsString != 0 {
			return Val{"str_empty", SStr}
		}
		if u.Info()&types.IsFloat != 0 {
			w.Uninterp("f64_zero", nil, SF64)
			return Val{"f64_zero", SF64}
		}
		return NilLoc
	case *types.Pointer:
		return NilLoc
	case *types.Slice:
		return NilSlice
	case *types.Map, *types.Chan:
		return IntLit(0)
	case *types.Interface, *types.TypeParam:
		return NilIface
	case *types.Signature:
		return NilFunc
	case *types.Struct:
		si := w.StructOf(t)
		if len(si.Fields) == 0 {
			return Val{si.Ctor, Sort(si.Name)}
		}
		var as []string
		for _, f := range si.Fields {
			as = append(as, w.ZeroOf(f.Type).T)
		}
		return Val{app(si.Ctor, as...), Sort(si.Name)}
	case *types.Array:
		es := w.SortOf(u.Elem())
		s := ArraySort(BVSort(64), es)
		return Val{fmt.Sprintf("((as const %s) %s)", s, w.ZeroOf(u.Elem()).T), s}
	}
	panic("ZeroOf: " + t.String())
}

// Leaf describes a scalar leaf inside an aggregate stored in the heap.
type Leaf struct {
	Path []int // field ids from the aggregate's location
	Type types.Type
	Sort Sort
}

// Leaves enumerates the scalar leaves of a type (arrays are not expanded).
func (w *World) Leaves(t types.Type) []Leaf {
	var out []Leaf
	var rec func(t types.Type, path []int)
	rec = func(t types.Type, path []int) {
		if st, ok := t.Underlying().(*types.Struct); ok {
			si := w.StructOf(t)
			for i := 0; i < st.NumFields(); i++ {
				rec(st.Field(i).Type(), append(append([]int{}, path...), si.Fields[i].FID))
			}
			return
		}
		out = append(out, Leaf{Path: path, Type: t, Sort: w.SortOf(t)})
	}
	rec(t, nil)
	return out
}

// heapNameT: one heap per scalar sort; reference-like scalars (pointers, slices, interfaces,
// functions, maps) are further split by their Go type - a memory location has one static type
// in type-safe Go, so a store through one type cannot change a location of another type.
func heapNameT(s Sort, t types.Type) string {
	switch s {
	case SLoc, SSlice, SIface, SFunc, SInt:
		if t != nil {
			return heapName(s) + "__" + mangle(typeKey(t))
		}
	}
	return heapName(s)
}

func heapName(s Sort) string {
	switch {
	case s.IsBV():
		return fmt.Sprintf("H_bv%d", s.BVWidth())
	case s == SBool:
		return "H_bool"
	case s == SStr:
		return "H_str"
	case s == SLoc:
		return "H_loc"
	case s == SSlice:
		return "H_slice"
	case s == SInt:
		return "H_ref"
	case s == SIface:
		return "H_iface"
	case s == SFunc:
		return "H_func"
	case s == SF64:
		return "H_f64"
	}
	return "H_" + mangle(string(s))
}
