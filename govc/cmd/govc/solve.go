package main

// Discharging obligations: z3 5.1.0, z3 4.8.12 and cvc5 are raced per query.

import (
	"bytes"
	"context"
	"fmt"
	"os"
	"os/exec"
	"path/filepath"
	"strings"
	"sync"
	"time"
)

type SolveResult struct {
	Status  string // unsat, sat, unknown, timeout, error
	Backend string
	Seconds float64
	Output  string
	Model   string
	File    string
	All     map[string]string // backend -> status
}

type solverSpec struct {
	name string
	argv func(file string, timeoutS int) []string
}

var solvers = []solverSpec{
	{"z3-5.1.0", func(f string, t int) []string { return []string{"z3-new", fmt.Sprintf("-T:%d", t), f} }},
	{"z3-4.8.12", func(f string, t int) []string { return []string{"z3", fmt.Sprintf("-T:%d", t), f} }},
	{"cvc5-1.0.3", func(f string, t int) []string {
		return []string{"cvc5", "--produce-models", fmt.Sprintf("--tlimit=%d", t*1000), f}
	}},
}

var solverSem = make(chan struct{}, 16)

func firstLine(s string) string {
	s = strings.TrimSpace(s)
	if i := strings.Index(s, "\n"); i >= 0 {
		return strings.TrimSpace(s[:i])
	}
	return s
}

func runSolver(ctx context.Context, sp solverSpec, file string, timeoutS int) (string, string, float64) {
	solverSem <- struct{}{}
	defer func() { <-solverSem }()
	if ctx.Err() != nil {
		return "cancelled", "", 0
	}
	argv := sp.argv(file, timeoutS)
	cctx, cancel := context.WithTimeout(ctx, time.Duration(timeoutS+2)*time.Second)
	defer cancel()
	cmd := exec.CommandContext(cctx, argv[0], argv[1:]...)
	var out bytes.Buffer
	cmd.Stdout = &out
	cmd.Stderr = &out
	t0 := time.Now()
	cmd.Run()
	dt := time.Since(t0).Seconds()
	o := out.String()
	fl := firstLine(o)
	switch fl {
	case "unsat", "sat", "unknown":
		return fl, o, dt
	case "timeout":
		return "timeout", o, dt
	}
	if ctx.Err() != nil {
		return "cancelled", o, dt
	}
	if cctx.Err() != nil {
		return "timeout", o, dt
	}
	if strings.Contains(o, "timeout") || strings.Contains(o, "interrupted") {
		return "timeout", o, dt
	}
	return "error", o, dt
}

// Solve races the back ends on one query. want is the set of acceptable definitive answers.
func Solve(query, file string, timeoutS int, crossCheck bool, prefer string) *SolveResult {
	os.MkdirAll(filepath.Dir(file), 0o755)
	if err := os.WriteFile(file, []byte(query), 0o644); err != nil {
		return &SolveResult{Status: "error", Output: err.Error()}
	}
	ctx, cancel := context.WithCancel(context.Background())
	defer cancel()
	type ans struct {
		name, status, out string
		dt                float64
	}
	ch := make(chan ans, len(solvers))
	var wg sync.WaitGroup
	firstDone := make(chan struct{})
	var once sync.Once
	order := append([]solverSpec{}, solvers...)
	delayStep := 400 * time.Millisecond
	if prefer != "" {
		for i, sp := range order {
			if strings.HasPrefix(sp.name, prefer) {
				order[0], order[i] = order[i], order[0]
				delayStep = 4 * time.Second
			}
		}
	}
	for i, sp := range order {
		wg.Add(1)
		go func(i int, sp solverSpec) {
			defer wg.Done()
			if i > 0 && !crossCheck {
				// staggered race: the other back ends start only if the first has not answered quickly
				select {
				case <-firstDone:
				case <-time.After(time.Duration(i) * delayStep):
				case <-ctx.Done():
				}
				if ctx.Err() != nil {
					ch <- ans{sp.name, "cancelled", "", 0}
					return
				}
			}
			s, o, dt := runSolver(ctx, sp, file, timeoutS)
			if i == 0 {
				once.Do(func() { close(firstDone) })
			}
			ch <- ans{sp.name, s, o, dt}
		}(i, sp)
	}
	go func() { wg.Wait(); close(ch) }()
	res := &SolveResult{Status: "unknown", File: file, All: map[string]string{}}
	definitive := 0
	for a := range ch {
		res.All[a.name] = a.status
		if a.status == "unsat" || a.status == "sat" {
			definitive++
			if res.Backend == "" {
				res.Status, res.Backend, res.Seconds, res.Output = a.status, a.name, a.dt, a.out
			} else if res.Status != a.status {
				res.Output += fmt.Sprintf("\nDISAGREEMENT: %s says %s, %s says %s", res.Backend, res.Status, a.name, a.status)
				res.Status = "error"
			}
			if !crossCheck || definitive >= 2 {
				cancel()
			} else if definitive == 1 {
				// cross-check: the other back ends get a bounded grace period for a second opinion
				// (three times what the first needed, at least 10 s), not the whole timeout
				grace := time.Duration(3*a.dt*float64(time.Second)) + 10*time.Second
				go func() {
					select {
					case <-time.After(grace):
						cancel()
					case <-ctx.Done():
					}
				}()
			}
			continue
		}
		if res.Backend == "" {
			if a.status == "timeout" && res.Status != "timeout" {
				res.Status = "timeout"
			}
			if a.status == "error" && res.Output == "" {
				res.Output = a.name + ": " + a.out
			}
		}
	}
	if res.Backend == "" && res.Status == "unknown" {
		allErr := true
		for _, s := range res.All {
			if s != "error" {
				allErr = false
			}
		}
		if allErr {
			res.Status = "error"
		}
	}
	return res
}

// GetModel re-runs a satisfiable query on z3 with get-value for the given terms.
func GetModel(query string, terms []string, file string, timeoutS int, backend string) string {
	q := strings.Replace(query, "(check-sat)\n", "", 1)
	q += "(check-sat)\n"
	if len(terms) > 0 {
		q += "(get-value (" + strings.Join(terms, " ") + "))\n"
	} else {
		q += "(get-model)\n"
	}
	f := file + ".model.smt2"
	os.WriteFile(f, []byte(q), 0o644)
	type cand struct {
		name string
		argv []string
	}
	cands := []cand{
		{"z3-5.1.0", []string{"z3-new", fmt.Sprintf("-T:%d", timeoutS), f}},
		{"z3-4.8.12", []string{"z3", fmt.Sprintf("-T:%d", timeoutS), f}},
		{"cvc5-1.0.3", []string{"cvc5", "--produce-models", fmt.Sprintf("--tlimit=%d", timeoutS*1000), f}},
	}
	// the back end that found the model goes first
	for i, c := range cands {
		if c.name == backend {
			cands[0], cands[i] = cands[i], cands[0]
		}
	}
	for _, c := range cands {
		ctx, cancel := context.WithTimeout(context.Background(), time.Duration(timeoutS+2)*time.Second)
		cmd := exec.CommandContext(ctx, c.argv[0], c.argv[1:]...)
		var out bytes.Buffer
		cmd.Stdout = &out
		cmd.Run()
		cancel()
		if firstLine(out.String()) == "sat" {
			return out.String()
		}
	}
	return ""
}
