package main

// SMT-LIB term construction. Terms are strings with a sort tag.

import (
	"fmt"
	"math/big"
	"strings"
)

type Sort string

const (
	SBool  Sort = "Bool"
	SInt   Sort = "Int"
	SLoc   Sort = "Loc"
	SSlice Sort = "Slice"
	SStr   Sort = "Str"
	SIface Sort = "Iface"
	SFunc  Sort = "Func"
	SPath  Sort = "Path"
	SF64   Sort = "F64"
)

func BVSort(n int) Sort { return Sort(fmt.Sprintf("(_ BitVec %d)", n)) }

func (s Sort) IsBV() bool { return strings.HasPrefix(string(s), "(_ BitVec ") }
func (s Sort) BVWidth() int {
	var n int
	fmt.Sscanf(string(s), "(_ BitVec %d)", &n)
	return n
}
func ArraySort(k, v Sort) Sort { return Sort("(Array " + string(k) + " " + string(v) + ")") }
func (s Sort) IsArray() bool   { return strings.HasPrefix(string(s), "(Array ") }

// ArrayParts splits "(Array K V)" into K and V.
func (s Sort) ArrayParts() (Sort, Sort) {
	body := strings.TrimSuffix(strings.TrimPrefix(string(s), "(Array "), ")")
	// split at top-level space
	depth := 0
	for i, c := range body {
		switch c {
		case '(':
			depth++
		case ')':
			depth--
		case ' ':
			if depth == 0 {
				return Sort(body[:i]), Sort(body[i+1:])
			}
		}
	}
	panic("bad array sort " + string(s))
}

type Val struct {
	T string
	S Sort
}

func (v Val) String() string { return v.T }

var (
	True  = Val{"true", SBool}
	False = Val{"false", SBool}
)

func app(op string, args ...string) string {
	return "(" + op + " " + strings.Join(args, " ") + ")"
}

func BV(n int, x uint64) Val {
	if n%4 == 0 {
		return Val{fmt.Sprintf("#x%0*x", n/4, x), BVSort(n)}
	}
	return Val{fmt.Sprintf("(_ bv%d %d)", x, n), BVSort(n)}
}

func BVBig(n int, x *big.Int) Val {
	m := new(big.Int).Set(x)
	if m.Sign() < 0 {
		mod := new(big.Int).Lsh(big.NewInt(1), uint(n))
		m.Add(m, mod)
	}
	return Val{fmt.Sprintf("(_ bv%s %d)", m.String(), n), BVSort(n)}
}

func IntLit(x int64) Val {
	if x < 0 {
		return Val{fmt.Sprintf("(- %d)", -x), SInt}
	}
	return Val{fmt.Sprintf("%d", x), SInt}
}

func Not(a Val) Val {
	switch a.T {
	case "true":
		return False
	case "false":
		return True
	}
	if strings.HasPrefix(a.T, "(not ") {
		return Val{a.T[5 : len(a.T)-1], SBool}
	}
	return Val{app("not", a.T), SBool}
}

func And(as ...Val) Val {
	var xs []string
	for _, a := range as {
		if a.T == "true" {
			continue
		}
		if a.T == "false" {
			return False
		}
		xs = append(xs, a.T)
	}
	switch len(xs) {
	case 0:
		return True
	case 1:
		return Val{xs[0], SBool}
	}
	return Val{app("and", xs...), SBool}
}

func Or(as ...Val) Val {
	var xs []string
	for _, a := range as {
		if a.T == "false" {
			continue
		}
		if a.T == "true" {
			return True
		}
		xs = append(xs, a.T)
	}
	switch len(xs) {
	case 0:
		return False
	case 1:
		return Val{xs[0], SBool}
	}
	return Val{app("or", xs...), SBool}
}

func Implies(a, b Val) Val {
	if a.T == "true" {
		return b
	}
	if a.T == "false" || b.T == "true" {
		return True
	}
	return Val{app("=>", a.T, b.T), SBool}
}

func Eq(a, b Val) Val {
	if a.T == b.T {
		return True
	}
	if a.S != b.S {
		panic(fmt.Sprintf("Eq: sort mismatch %s:%s vs %s:%s", a.T, a.S, b.T, b.S))
	}
	return Val{app("=", a.T, b.T), SBool}
}

func Ite(c, a, b Val) Val {
	if c.T == "true" {
		return a
	}
	if c.T == "false" {
		return b
	}
	if a.T == b.T {
		return a
	}
	if a.S != b.S {
		panic(fmt.Sprintf("Ite: sort mismatch %s:%s vs %s:%s", a.T, a.S, b.T, b.S))
	}
	return Val{app("ite", c.T, a.T, b.T), a.S}
}

func Select(arr, idx Val) Val {
	_, v := arr.S.ArrayParts()
	return Val{app("select", arr.T, idx.T), v}
}

func Store(arr, idx, v Val) Val {
	return Val{app("store", arr.T, idx.T, v.T), arr.S}
}

func BVOp(op string, a, b Val) Val {
	if a.S != b.S {
		panic(fmt.Sprintf("BVOp %s: sort mismatch %s:%s vs %s:%s", op, a.T, a.S, b.T, b.S))
	}
	return Val{app(op, a.T, b.T), a.S}
}

func BVCmp(op string, a, b Val) Val {
	if a.S != b.S {
		panic(fmt.Sprintf("BVCmp %s: sort mismatch %s:%s vs %s:%s", op, a.T, a.S, b.T, b.S))
	}
	return Val{app(op, a.T, b.T), SBool}
}

func ZExt(to int, a Val) Val {
	w := a.S.BVWidth()
	if to == w {
		return a
	}
	if to < w {
		return Extract(to-1, 0, a)
	}
	return Val{fmt.Sprintf("((_ zero_extend %d) %s)", to-w, a.T), BVSort(to)}
}

func SExt(to int, a Val) Val {
	w := a.S.BVWidth()
	if to == w {
		return a
	}
	if to < w {
		return Extract(to-1, 0, a)
	}
	return Val{fmt.Sprintf("((_ sign_extend %d) %s)", to-w, a.T), BVSort(to)}
}

func Extract(hi, lo int, a Val) Val {
	return Val{fmt.Sprintf("((_ extract %d %d) %s)", hi, lo, a.T), BVSort(hi - lo + 1)}
}

func Concat(as ...Val) Val {
	w := 0
	var xs []string
	for _, a := range as {
		w += a.S.BVWidth()
		xs = append(xs, a.T)
	}
	if len(xs) == 1 {
		return as[0]
	}
	return Val{app("concat", xs...), BVSort(w)}
}

// Loc helpers
func MkLoc(ref, idx, path Val) Val {
	return Val{app("mkloc", ref.T, idx.T, path.T), SLoc}
}
func LRef(l Val) Val  { return Val{app("lref", l.T), SInt} }
func LIdx(l Val) Val  { return Val{app("lidx", l.T), BVSort(64)} }
func LPath(l Val) Val { return Val{app("lpath", l.T), SPath} }

var NilLoc = Val{"nilloc", SLoc}
var PNil = Val{"pnil", SPath}

func PCons(tail Val, fid int) Val {
	return Val{fmt.Sprintf("(pcons %s %d)", tail.T, fid), SPath}
}

func MkSlice(base, ln, cp Val) Val {
	return Val{app("mkslice", base.T, ln.T, cp.T), SSlice}
}
func SBase(s Val) Val { return Val{app("sbase", s.T), SLoc} }
func SLen(s Val) Val  { return Val{app("slen", s.T), BVSort(64)} }
func SCap(s Val) Val  { return Val{app("scap", s.T), BVSort(64)} }

var NilSlice = Val{"nilslice", SSlice}

func MkIface(typ, val Val) Val { return Val{app("mkiface", typ.T, val.T), SIface} }
func ITyp(i Val) Val           { return Val{app("ityp", i.T), SInt} }
func IVal(i Val) Val           { return Val{app("ival", i.T), SLoc} }

var NilIface = Val{"niliface", SIface}

func MkFunc(id, env Val) Val { return Val{app("mkfunc", id.T, env.T), SFunc} }
func FnID(f Val) Val         { return Val{app("fnid", f.T), SInt} }
func FEnv(f Val) Val         { return Val{app("fenv", f.T), SLoc} }

var NilFunc = Val{"nilfunc", SFunc}

func StrLen(s Val) Val { return Val{app("str_len", s.T), BVSort(64)} }

// ElemLoc is the location of element i of a sequence starting at base.
func ElemLoc(base, i Val) Val {
	return MkLoc(LRef(base), BVOp("bvadd", LIdx(base), i), LPath(base))
}

func FieldLoc(base Val, fid int) Val {
	return MkLoc(LRef(base), LIdx(base), PCons(LPath(base), fid))
}

func Forall(vars []Val, body Val) Val {
	return quant("forall", vars, body, nil)
}
func Exists(vars []Val, body Val) Val {
	return quant("exists", vars, body, nil)
}
func quant(q string, vars []Val, body Val, pats []string) Val {
	if len(vars) == 0 {
		return body
	}
	var b strings.Builder
	b.WriteString("(" + q + " (")
	for _, v := range vars {
		fmt.Fprintf(&b, "(%s %s)", v.T, v.S)
	}
	b.WriteString(") ")
	if len(pats) > 0 {
		b.WriteString("(! " + body.T)
		for _, p := range pats {
			b.WriteString(" :pattern (" + p + ")")
		}
		b.WriteString(")")
	} else {
		b.WriteString(body.T)
	}
	b.WriteString(")")
	return Val{b.String(), SBool}
}

const prelude = `(declare-datatypes ((Path 0)) (((pnil) (pcons (ptail Path) (pfid Int)))))
(declare-datatypes ((Loc 0)) (((mkloc (lref Int) (lidx (_ BitVec 64)) (lpath Path)))))
(declare-datatypes ((Slice 0)) (((mkslice (sbase Loc) (slen (_ BitVec 64)) (scap (_ BitVec 64))))))
(declare-datatypes ((Iface 0)) (((mkiface (ityp Int) (ival Loc)))))
(declare-datatypes ((Func 0)) (((mkfunc (fnid Int) (fenv Loc)))))
(declare-sort Str 0)
(declare-sort F64 0)
(declare-fun str_len (Str) (_ BitVec 64))
(define-fun nilloc () Loc (mkloc 0 #x0000000000000000 pnil))
(define-fun nilslice () Slice (mkslice nilloc #x0000000000000000 #x0000000000000000))
(define-fun niliface () Iface (mkiface 0 nilloc))
(define-fun nilfunc () Func (mkfunc 0 nilloc))
(declare-const str_empty Str)
(assert (= (str_len str_empty) #x0000000000000000))
`

func mangle(s string) string {
	var b strings.Builder
	for _, c := range s {
		switch {
		case c >= 'a' && c <= 'z', c >= 'A' && c <= 'Z', c >= '0' && c <= '9', c == '_':
			b.WriteRune(c)
		case c == '.' || c == '/':
			b.WriteByte('_')
		case c == '*':
			b.WriteString("P")
		case c == '[':
			b.WriteString("L")
		case c == ']':
			b.WriteString("J")
		default:
			b.WriteString("_")
		}
	}
	return b.String()
}
