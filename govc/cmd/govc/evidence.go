package main

import (
	"encoding/json"
	"fmt"
	"os"
	"path/filepath"
	"sort"
	"strings"
)

func sortedKeys(m map[string]bool) []string {
	var ks []string
	for k := range m {
		ks = append(ks, k)
	}
	sort.Strings(ks)
	return ks
}

func writeEvidence(p *Prog, prop, tier string, seed int, verif string, encs []*Enc, obs []*Oblig, discharged int,
	byBackend map[string]int, solverSeconds float64, violations int, known []KnownFinding, knownHit map[int]bool, wall float64) {
	units := map[string]bool{}
	inlined := map[string]bool{}
	assumed := map[string]bool{}
	unspec := map[string]bool{}
	abstr := map[string]bool{}
	for _, e := range encs {
		u := e.Unit
		units[u] = true
		for k := range e.inlined {
			inlined[shortenKey(k)] = true
		}
		for k := range e.assumedUsed {
			assumed[k] = true
		}
		for k := range e.unspecExtern {
			unspec[k] = true
		}
		for k := range e.abstractions {
			abstr[k] = true
		}
	}
	byKind := map[string]int{}
	var samples []map[string]interface{}
	var notDischarged []map[string]interface{}
	distinct := map[string]bool{}
	for _, o := range obs {
		byKind[o.Kind]++
		base := o.Name
		if i := strings.Index(base, "["); i > 0 {
			base = base[:i]
		}
		distinct[base] = true
		st := "none"
		be := ""
		if o.Result != nil {
			st, be = o.Result.Status, o.Result.Backend
		}
		if len(samples) < 12 && (o.Kind == "post" || o.Kind == "lemma" || len(samples) < 4) {
			s := map[string]interface{}{"obligation": o.Name, "kind": o.Kind, "status": st, "backend": be}
			if o.Clause != nil {
				s["clause"] = o.Clause.Kind + " " + o.Clause.Src
			}
			if o.Pos.IsValid() {
				s["at"] = fmt.Sprintf("%s:%d", strings.TrimPrefix(o.Pos.Filename, "/repo/"), o.Pos.Line)
			}
			samples = append(samples, s)
		}
		if !o.ok() {
			nd := map[string]interface{}{"obligation": o.Name, "status": st}
			if ki := matchKnown(known, prop, o.Name); ki >= 0 {
				nd["known_finding"] = known[ki].What
			}
			notDischarged = append(notDischarged, nd)
		}
	}
	trusted := []string{
		"govc itself: the home-grown VC generator (go/ssa naive form -> SMT-LIB), its memory model and its contract evaluator",
		"SMT solvers z3 5.1.0, z3 4.8.12, cvc5 1.0.3 (an `unsat` answer of any one of them is accepted in the quick tier)",
		"go/ssa (x/tools v0.29.0) translation of the Go source; gc/amd64 sizes: int, uint, uintptr are 64-bit vectors",
		"objects are smaller than 2^40 elements; allocation never fails",
	}
	for _, a := range sortedKeys(assumed) {
		trusted = append(trusted, "assumed contract: "+a)
	}
	for _, a := range sortedKeys(unspec) {
		trusted = append(trusted, "external call without contract (sound default: results unconstrained, reachable heap havocked, no panic assumed): "+a)
	}
	for _, a := range sortedKeys(abstr) {
		trusted = append(trusted, "abstraction: "+a)
	}
	var knownOut []string
	for i, k := range known {
		if k.Property == prop && k.Status == "open" && knownHit[i] {
			knownOut = append(knownOut, k.Obligation+": "+k.What)
		}
	}
	cov := map[string]interface{}{
		"obligations":               len(obs),
		"discharged":                discharged,
		"checker_cmd":               fmt.Sprintf("./check %s --tier %s   (govc check -prop %s -tier %s; every obligation is an SMT-LIB query raced on z3-new, z3, cvc5)", prop, tier, prop, tier),
		"trusted_base":              trusted,
		"functions_under_contract":  sortedKeys(units),
		"functions_inlined":         sortedKeys(inlined),
		"obligations_by_kind":       byKind,
		"discharged_by_backend":     byBackend,
		"solver_seconds":            solverSeconds,
		"samples":                   samples,
		"not_discharged":            notDischarged,
		"known_findings_reproduced": knownOut,
		"evaluations":               len(obs),
		"distinct_nontrivial":       len(distinct),
		"rule":                      "one SMT query per generated obligation (post/pre/invariant/safety/lock/frame/lemma); distinct = obligation names with the split-case suffix removed",
		"contract_files":            p.CS.Files,
	}
	ev := map[string]interface{}{
		"property_id": prop,
		"tier":        tier,
		"seed":        seed,
		"level":       "proof",
		"coverage":    cov,
		"assumptions": trusted,
		"wall_s":      wall,
		"violations":  violations,
	}
	os.MkdirAll(filepath.Join(verif, "evidence"), 0o755)
	b, _ := json.MarshalIndent(ev, "", " ")
	os.WriteFile(filepath.Join(verif, "evidence", prop+".json"), b, 0o644)
}
