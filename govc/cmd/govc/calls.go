package main

// Calls: builtins, intrinsics, contracts, inlining, defaults for unspecified externals.

import (
	"fmt"
	"go/token"
	"go/types"
	"sort"
	"strings"

	"golang.org/x/tools/go/ssa"
)

const maxInlineDepth = 6

func (e *Enc) call(fr *Frame, st *State, c *ssa.CallCommon, in ssa.Instruction, pos token.Pos) []Val {
	if fr.fc != nil && len(fr.fc.Asserts) > 0 && fr.parent == nil {
		src := e.P.exprAt(pos)
		for _, as := range fr.fc.Asserts {
			if src != "" && strings.Contains(src, as.Key) {
				as.Matched++
				ec := e.evalCtx(fr, st)
				// atentry() in a keyed assertion: the pre-state of the innermost loop around the call
				if blk := in.Block(); blk != nil {
					var inner *loopInfo
					for _, li := range fr.loops {
						if li.body[blk] && li.preSt != nil && (inner == nil || len(li.body) < len(inner.body)) {
							inner = li
						}
					}
					if inner != nil {
						ec.loopPre = inner.preSt
					}
				}
				cnd, err := ec.evalBool(as.Clause.Expr)
				lab := as.Clause.Label
				if lab == "" {
					lab = "before " + as.Key
				}
				if err != nil {
					// the keyed call exists but the assertion cannot be stated there (e.g. it names a
					// local that does not exist at this call): not established - a failing obligation
					o := e.oblig(st, "assert", lab+":cannot-be-stated-here", False, pos, as.Clause.Tags, as.Clause)
					o.Desc = fmt.Sprintf("%s:%d: %v", as.Clause.File, as.Clause.Line, err)
					continue
				}
				e.oblig(st, "assert", lab, cnd, pos, as.Clause.Tags, as.Clause)
				e.assume(st, cnd)
			}
		}
	}
	var args []Val
	for _, a := range c.Args {
		if _, ok := fr.lrefs[a]; ok {
			e.failed = fmt.Errorf("%s: address of non-escaping local passed to a call", e.Unit)
			return nil
		}
		args = append(args, e.val(fr, st, a))
	}
	var fnVal Val
	if c.IsInvoke() {
		fnVal = e.val(fr, st, c.Value)
	} else {
		switch c.Value.(type) {
		case *ssa.Builtin, *ssa.Function:
		default:
			fnVal = e.val(fr, st, c.Value)
		}
	}
	return e.callWithArgs(fr, st, c, in, pos, fnVal, args)
}

func (e *Enc) callWithArgs(fr *Frame, st *State, c *ssa.CallCommon, in ssa.Instruction, pos token.Pos, fnVal Val, args []Val) []Val {
	prevCall := e.curCall
	e.curCall = c
	defer func() { e.curCall = prevCall }()
	sig := c.Signature()
	if c.IsInvoke() {
		// interface method call
		e.check(st, "safety", e.siteLabel(fr, "nil-interface-call", pos), Not(Eq(ITyp(fnVal), IntLit(0))), pos)
		key := c.Method.FullName()
		if fc, ok := e.P.CS.Funcs[key]; ok {
			return e.applyContract(fr, st, fc, sig, c.Method.Name(), append([]Val{fnVal}, args...), true, c.Value.Type(), pos)
		}
		return e.externDefault(fr, st, key, sig, append([]Val{fnVal}, args...), append([]types.Type{c.Value.Type()}, paramTypes(sig)...), pos)
	}
	switch callee := c.Value.(type) {
	case *ssa.Builtin:
		return e.builtin(fr, st, callee, c, args, pos)
	case *ssa.Function:
		if key := funcKey(callee); len(e.P.CS.Protects) > 0 && len(c.Args) > 0 &&
			(key == "(*sync.Mutex).Unlock" || key == "(*sync.RWMutex).Unlock" || key == "(*sync.RWMutex).RUnlock") {
			e.releaseProtected(fr, st, c.Args[0], pos)
		}
		res := e.staticCall(fr, st, callee, args, nil, pos)
		if key := funcKey(callee); len(e.P.CS.Protects) > 0 && len(c.Args) > 0 &&
			(key == "(*sync.Mutex).Lock" || key == "(*sync.RWMutex).Lock" || key == "(*sync.RWMutex).RLock") {
			e.acquireProtected(fr, st, c.Args[0], pos)
		}
		return res
	case *ssa.MakeClosure:
		fn := callee.Fn.(*ssa.Function)
		var fvs []Val
		for _, b := range callee.Bindings {
			fvs = append(fvs, e.val(fr, st, b))
		}
		return e.staticCall(fr, st, fn, args, fvs, pos)
	}
	// dynamic call through a function value
	e.check(st, "safety", e.siteLabel(fr, "nil-func-call", pos), Not(Eq(FnID(fnVal), IntLit(0))), pos)
	if named, ok := c.Value.Type().(*types.Named); ok {
		key := named.Obj().Pkg().Path() + "." + named.Obj().Name()
		if fc, ok := e.P.CS.Types[key]; ok {
			return e.applyContract(fr, st, fc, sig, named.Obj().Name(), append([]Val{fnVal}, args...), true, named, pos)
		}
	}
	return e.externDefault(fr, st, "dynamic call of "+c.Value.Type().String(), sig, args, paramTypes(sig), pos)
}

func paramTypes(sig *types.Signature) []types.Type {
	var ts []types.Type
	for i := 0; i < sig.Params().Len(); i++ {
		ts = append(ts, sig.Params().At(i).Type())
	}
	return ts
}

func (e *Enc) inRepo(fn *ssa.Function) bool {
	p := fn.Pkg
	if p == nil && fn.Parent() != nil {
		p = fn.Parent().Pkg
	}
	if p == nil {
		// synthetic wrappers: look at the receiver / object package
		if fn.Object() != nil && fn.Object().Pkg() != nil {
			return strings.HasPrefix(fn.Object().Pkg().Path(), e.P.ModPath)
		}
		return false
	}
	return strings.HasPrefix(p.Pkg.Path(), e.P.ModPath)
}

func (e *Enc) staticCall(fr *Frame, st *State, fn *ssa.Function, args []Val, freeVars []Val, pos token.Pos) []Val {
	key := funcKey(fn)
	if res, ok := e.intrinsic(fr, st, key, fn, args, pos); ok {
		return res
	}
	if fc, ok := e.P.CS.Funcs[key]; ok && !fc.Inline {
		return e.applyContract(fr, st, fc, fn.Signature, fn.Name(), args, false, nil, pos)
	}
	synthetic := fn.Synthetic != "" && fn.Blocks != nil
	if fn.Blocks != nil && (e.inRepo(fn) || synthetic || freeVars != nil) {
		return e.inline(fr, st, fn, args, freeVars, pos)
	}
	var pts []types.Type
	if fn.Signature.Recv() != nil {
		pts = append(pts, fn.Signature.Recv().Type())
	}
	pts = append(pts, paramTypes(fn.Signature)...)
	return e.externDefault(fr, st, key, fn.Signature, args, pts, pos)
}

func (e *Enc) inline(fr *Frame, st *State, fn *ssa.Function, args []Val, freeVars []Val, pos token.Pos) []Val {
	for _, f := range e.inlineStack {
		if f == fn {
			e.failed = fmt.Errorf("%s: recursive call of %s needs a contract", e.Unit, fn)
			return nil
		}
	}
	if fr.depth >= maxInlineDepth {
		e.failed = fmt.Errorf("%s: inlining depth exceeded at %s", e.Unit, fn)
		return nil
	}
	e.inlined[funcKey(fn)] = true
	e.inlineStack = append(e.inlineStack, fn)
	defer func() { e.inlineStack = e.inlineStack[:len(e.inlineStack)-1] }()
	nf := &Frame{fn: fn, vals: map[ssa.Value]Val{}, tuples: map[ssa.Value][]Val{}, lrefs: map[ssa.Value]*LocalRef{},
		params: map[string]Val{}, depth: fr.depth + 1, parent: fr, edgeR: map[[2]*ssa.BasicBlock]Val{}}
	nf.prefix = fr.prefix + shortName(fn) + ">"
	nf.oldSt = st.clone()
	if fc, ok := e.P.CS.Funcs[funcKey(fn)]; ok {
		nf.fc = fc
	}
	saved := st.defers
	st.defers = nil
	rets := e.encodeBody(nf, st, args, freeVars)
	if e.failed != nil {
		return nil
	}
	if len(rets) == 0 {
		// callee never returns (always panics): nothing after the call is reachable
		st.reach = False
		var zs []Val
		for i := 0; i < fn.Signature.Results().Len(); i++ {
			zs = append(zs, e.P.W.ZeroOf(fn.Signature.Results().At(i).Type()))
		}
		st.defers = saved
		return zs
	}
	var edges []edgeState
	for _, r := range rets {
		edges = append(edges, edgeState{cond: r.st.reach, st: r.st})
	}
	m := e.merge(edges, "ret_"+fn.Name())
	// merge results
	var results []Val
	for i := 0; i < fn.Signature.Results().Len(); i++ {
		same := true
		for _, r := range rets[1:] {
			if r.results[i].T != rets[0].results[i].T {
				same = false
			}
		}
		if same {
			results = append(results, rets[0].results[i])
			continue
		}
		rv := e.fresh("res_"+fn.Name(), rets[0].results[i].S)
		for _, r := range rets {
			e.fact(Implies(r.st.reach, Eq(rv, r.results[i])))
		}
		results = append(results, rv)
	}
	*st = *m
	st.defers = saved
	return results
}

func shortName(fn *ssa.Function) string {
	n := fn.Name()
	if fn.Signature.Recv() != nil {
		t := fn.Signature.Recv().Type()
		if p, ok := t.(*types.Pointer); ok {
			t = p.Elem()
		}
		if nt, ok := t.(*types.Named); ok {
			return nt.Obj().Name() + "." + n
		}
	}
	return n
}

// ---------------------------------------------------------------------------
// contracts at call sites

func (e *Enc) contractBindings(fc *FuncContract, sig *types.Signature, args []Val, hasSelf bool, selfType types.Type) (map[string]TV, []TV) {
	bind := map[string]TV{}
	var order []TV
	i := 0
	if hasSelf {
		tv := TV{Val: args[0], Ty: selfType}
		bind["self"] = tv
		order = append(order, tv)
		i = 1
	} else if sig.Recv() != nil {
		tv := TV{Val: args[0], Ty: sig.Recv().Type()}
		if n := sig.Recv().Name(); n != "" && n != "_" {
			bind[n] = tv
		}
		bind["self"] = tv
		order = append(order, tv)
		i = 1
	}
	for k := 0; k < sig.Params().Len(); k++ {
		p := sig.Params().At(k)
		if i+k >= len(args) {
			break
		}
		tv := TV{Val: args[i+k], Ty: p.Type()}
		if n := p.Name(); n != "" && n != "_" {
			bind[n] = tv
		}
		bind[fmt.Sprintf("arg%d", k)] = tv
		order = append(order, tv)
	}
	return bind, order
}

func bindResults(bind map[string]TV, sig *types.Signature, results []Val) {
	n := sig.Results().Len()
	for k := 0; k < n; k++ {
		r := sig.Results().At(k)
		tv := TV{Val: results[k], Ty: r.Type()}
		if nm := r.Name(); nm != "" && nm != "_" {
			bind[nm] = tv
		}
		bind[fmt.Sprintf("ret%d", k)] = tv
		if n == 1 {
			bind["ret"] = tv
		}
		if k == n-1 && types.Identical(r.Type(), types.Universe.Lookup("error").Type()) {
			if _, ok := bind["err"]; !ok {
				bind["err"] = tv
			}
		}
		if k == 0 && n == 2 {
			if _, ok := bind["ret"]; !ok {
				bind["ret"] = tv
			}
		}
	}
}

func (e *Enc) applyContract(fr *Frame, st *State, fc *FuncContract, sig *types.Signature, name string, args []Val, hasSelf bool, selfType types.Type, pos token.Pos) []Val {
	if fc.Assumed || fc.Trusted {
		e.assumedUsed[fc.Key] = true
	}
	if fc.TrustedPost {
		e.assumedUsed[fc.Key+" (ensures clauses trusted; body checked for safety only)"] = true
	}
	e.contractsUsed[fc.Key] = true
	if hasSelf && selfType != nil {
		if _, isIface := selfType.Underlying().(*types.Interface); isIface && !fc.Assumed {
			// an in-repo interface contract: say which implementations are checked against it
			var impls []string
			for k, other := range e.P.CS.Funcs {
				for _, r := range other.Refines {
					if strings.HasPrefix(fc.Key, "("+r+").") && strings.HasSuffix(k, "."+name) {
						impls = append(impls, shortenKey(k))
					}
				}
			}
			sort.Strings(impls)
			if len(impls) == 0 {
				e.assumedUsed["interface contract "+shortenKey(fc.Key)+" is assumed at this call site; no implementation is checked against it"] = true
			} else {
				e.assumedUsed["interface contract "+shortenKey(fc.Key)+" is assumed at this call site; checked (refines) for "+strings.Join(impls, ", ")+" only"] = true
			}
		}
	}
	if strings.HasPrefix(fc.Key, "(*sync.Mutex).") || strings.HasPrefix(fc.Key, "(*sync.RWMutex).") {
		if len(args) > 0 {
			seen := false
			for _, m := range e.lockTouched {
				if m.T == args[0].T {
					seen = true
				}
			}
			if !seen {
				e.lockTouched = append(e.lockTouched, args[0])
			}
		}
	}
	bind, _ := e.contractBindings(fc, sig, args, hasSelf, selfType)
	pre := st.clone()
	ec := &EvalCtx{e: e, st: st, old: pre, bind: bind, spec: fc.Spec}
	for i, rq := range fc.Requires {
		budget := conjBudget
		cs, err := ec.evalConjuncts(rq.Expr, &budget)
		if err != nil {
			e.failed = fmt.Errorf("%s:%d: %v", rq.File, rq.Line, err)
			return nil
		}
		lab := rq.Label
		if lab == "" {
			lab = fmt.Sprintf("%d", i+1)
		}
		for ci, c := range cs {
			e.oblig(st, "pre", e.siteLabel(fr, name+":"+lab+conjSuffix(ci), pos), c, pos, rq.Tags, rq)
		}
		if whole, err := ec.evalBool(rq.Expr); err == nil {
			e.assume(st, whole)
		}
	}
	// havoc the modifies set
	if !fc.HasMod && !fc.Pure {
		if fc.Assumed {
			e.havocAll(st)
			e.abstractions["contract of "+fc.Key+" has no modifies clause: everything havocked"] = true
		}
		// in-repo contracts without modifies clause: treated as modifies nothing is
		// unsound; require explicit clause
		if !fc.Assumed {
			e.failed = fmt.Errorf("%s:%d: contract of %s needs a modifies clause", fc.File, fc.Line, fc.Key)
			return nil
		}
	}
	for _, m := range fc.Modifies {
		if call, ok := m.(*SCall); ok {
			if id, ok := call.Fun.(*SIdent); ok && id.Name == "pointees" && len(call.Args) == 1 {
				// pointees(param): whatever the pointers packed into the variadic argument point to,
				// havocked by type (every location of the pointee types' heaps)
				done := false
				if pid, ok := call.Args[0].(*SIdent); ok {
					if tys := pointeeTypes(e.curCall, sig, pid.Name); tys != nil {
						ms := &modSet{cells: map[*ssa.Alloc]bool{}, heaps: map[string]bool{}, iters: map[ssa.Value]bool{}}
						for _, ty := range tys {
							e.addLeafHeaps(ms, ty)
						}
						var hn []string
						for n := range ms.heaps {
							hn = append(hn, n)
						}
						sort.Strings(hn)
						for _, n := range hn {
							if old := e.heapAny(st, n); old.T != "" {
								st.heaps[n] = e.fresh(n+"_pt", old.S)
							} else {
								e.epochCounter++
								st.epochs = append(st.epochs, &lazyEpoch{id: e.epochCounter, names: map[string]bool{n: true}})
							}
						}
						done = true
					}
				}
				if !done {
					e.havocAll(st)
				}
				continue
			}
		}
		t, err := ec.inState(pre).evalModTarget(m)
		if err != nil {
			e.failed = fmt.Errorf("%s:%d: %v", fc.File, fc.Line, err)
			return nil
		}
		e.havocTarget(st, t)
	}
	// results
	var results []Val
	for k := 0; k < sig.Results().Len(); k++ {
		rt := sig.Results().At(k).Type()
		r := e.fresh("r_"+name, e.P.W.SortOf(rt))
		results = append(results, r)
	}
	// allocation may have happened in the callee
	if !fc.Pure {
		nn := e.fresh("next", SInt)
		e.fact(Val{app("<=", st.next.T, nn.T), SBool})
		st.next = nn
	}
	for k, r := range results {
		e.assumeValid(st, r, sig.Results().At(k).Type())
	}
	bindResults(bind, sig, results)
	ec2 := &EvalCtx{e: e, st: st, old: pre, bind: bind, spec: fc.Spec}
	for _, en := range fc.Ensures {
		if hasTag(en.Tags, "internal") {
			continue // speaks about locals of the callee: proved in its body, not visible to callers
		}
		if hasTag(en.Tags, "trusted") {
			e.assumedUsed[fc.Key+": trusted clause `"+strings.TrimSpace(en.Src)+"`"] = true
		}
		c, err := ec2.evalBool(en.Expr)
		if err != nil {
			e.failed = fmt.Errorf("%s:%d: %v", en.File, en.Line, err)
			return nil
		}
		e.assume(st, c)
	}
	return results
}

// havocAll havocs every heap; what the enclosing function's `preserves` clause names
// (state unreachable from callees with an unbounded frame) keeps its contents.
func (e *Enc) havocAll(st *State) {
	targets := e.preservedTargets(st)
	// preserved ghost state must exist before the havoc to be related across it
	for _, pt := range targets {
		switch pt.kind {
		case "ghostvar":
			if gv := e.P.CS.GhostVars[pt.name]; gv != nil && e.heapAny(st, "GV_"+pt.name).T == "" {
				if _, s, err := (&EvalCtx{e: e, spec: gv.Spec}).resolveType(gv.Type); err == nil {
					e.heap(st, "GV_"+pt.name, s)
				}
			}
		case "ghostfield":
			if gf := e.P.CS.GhostFields[pt.name]; gf != nil && e.heapAny(st, "G_"+pt.name).T == "" {
				if _, s, err := (&EvalCtx{e: e, spec: gf.Spec}).resolveType(gf.Sort); err == nil {
					e.heap(st, "G_"+pt.name, ArraySort(SLoc, s))
				}
			}
		}
	}
	pre := st.clone()
	e.havocAllRaw(st)
	e.applyPreservedTargets(targets, pre, st, nil)
}

// preservedTargets: the preserves clauses evaluated in st (those naming locals only once the local exists).
func (e *Enc) preservedTargets(st *State) []modTarget {
	targets := e.preserved
	for _, dp := range e.deferredPres {
		ec := &EvalCtx{e: e, st: st, old: dp.fr.oldSt, bind: dp.bind, spec: dp.spec, fr: dp.fr}
		t, err := ec.evalModTarget(dp.expr)
		if err != nil || (t.kind != "loc" && t.kind != "elems" && t.kind != "map" && t.kind != "ghostfield") {
			continue // the local does not exist yet
		}
		targets = append(targets[:len(targets):len(targets)], t)
	}
	return targets
}

func (e *Enc) applyPreserved(pre, st *State, written map[string]bool) {
	e.applyPreservedTargets(e.preservedTargets(pre), pre, st, written)
}

// applyPreserved states that the preserved targets have the same contents in st as in pre,
// except in the heaps named by written (heaps something else than an unbounded-frame call writes).
func (e *Enc) applyPreservedTargets(targets []modTarget, pre, st *State, written map[string]bool) {
	heapBefore := func(n string) (Val, bool) {
		if h, ok := pre.heaps[n]; ok {
			return h, true
		}
		h, ok := e.base[n]
		return h, ok
	}
	for _, pt := range targets {
		if pt.kind == "ghostfield" {
			n := "G_" + pt.name
			if nh, ok := st.heaps[n]; ok && !written[n] {
				if oh, ok := heapBefore(n); ok && oh.T != nh.T {
					e.fact(Eq(Select(nh, pt.loc), Select(oh, pt.loc)))
				}
			}
			continue
		}
		if pt.kind == "ghostvar" {
			n := "GV_" + pt.name
			if nh, ok := st.heaps[n]; ok && !written[n] {
				if oh, ok := heapBefore(n); ok && oh.T != nh.T {
					e.fact(Eq(nh, oh))
				}
			}
			continue
		}
		if pt.kind == "map" {
			// the contents of a preserved map are unchanged
			for _, n := range sortedHeapNames(st.heaps) {
				nh := st.heaps[n]
				if !(strings.HasPrefix(n, "MD_") || strings.HasPrefix(n, "MV_") || n == "ML") || written[n] {
					continue
				}
				oh, ok := heapBefore(n)
				if !ok || oh.T == nh.T {
					continue
				}
				e.fact(Eq(Select(nh, pt.loc), Select(oh, pt.loc)))
			}
			continue
		}
		for _, lf := range e.P.W.Leaves(pt.typ) {
			if _, isArr := lf.Type.Underlying().(*types.Array); isArr {
				continue
			}
			n := heapNameT(lf.Sort, lf.Type)
			nh, ok := st.heaps[n]
			if !ok || written[n] {
				continue
			}
			oh, ok := heapBefore(n)
			if !ok || oh.T == nh.T {
				continue
			}
			if pt.kind == "loc" {
				l := pt.loc
				if len(lf.Path) > 0 {
					l = MkLoc(LRef(pt.loc), LIdx(pt.loc), pathWith(pt.loc, lf.Path))
				}
				e.fact(Eq(Select(nh, l), Select(oh, l)))
			} else { // elems
				l := Val{"l!", SLoc}
				in := e.inRange(l, SBase(pt.slice), SLen(pt.slice), lf.Path)
				e.fact(quant("forall", []Val{l}, Implies(in, Eq(Select(nh, l), Select(oh, l))), []string{Select(nh, l).T}))
			}
		}
	}
}

func (e *Enc) havocAllRaw(st *State) {
	// heaps that are first touched after this point must not resolve to their entry value
	e.epochCounter++
	st.epochs = append(st.epochs, &lazyEpoch{id: e.epochCounter, all: true, names: map[string]bool{}})
	names := map[string]Val{}
	for n, h := range e.base {
		names[n] = h
	}
	for n, h := range st.heaps {
		names[n] = h
	}
	var ks []string
	for n := range names {
		ks = append(ks, n)
	}
	sort.Strings(ks)
	for _, n := range ks {
		if strings.HasPrefix(n, "G_held") || strings.HasPrefix(n, "G_rheld") {
			continue // lock state is only changed by sync primitives
		}
		st.heaps[n] = e.fresh(n+"_hv", names[n].S)
	}
}

func (e *Enc) havocTarget(st *State, t modTarget) {
	w := e.P.W
	switch t.kind {
	case "all":
		e.havocAll(st)
	case "ghostvar":
		name := "GV_" + t.name
		old := e.heapAny(st, name)
		if old.T == "" {
			gv := e.P.CS.GhostVars[t.name]
			_, s, err := (&EvalCtx{e: e, spec: gv.Spec}).resolveType(gv.Type)
			if err != nil {
				e.failed = err
				return
			}
			old = e.heap(st, name, s)
		}
		st.heaps[name] = e.fresh(name, old.S)
	case "ghostfield":
		gf := e.P.CS.GhostFields[t.name]
		s, err := (&EvalCtx{e: e}).ghostFieldSort(gf)
		if err != nil {
			e.failed = err
			return
		}
		name := "G_" + t.name
		h := e.heap(st, name, ArraySort(SLoc, s))
		v := e.fresh("gv_"+t.name, s)
		nh := e.fresh(name, h.S)
		e.fact(Eq(nh, Store(h, t.loc, v)))
		st.heaps[name] = nh
	case "loc":
		for _, lf := range w.Leaves(t.typ) {
			if _, isArr := lf.Type.Underlying().(*types.Array); isArr {
				e.abstractions["modifies target containing an array: array part ignored"] = true
				continue
			}
			hn, h := e.scalarHeapT(st, lf.Sort, lf.Type)
			l := t.loc
			if len(lf.Path) > 0 {
				l = MkLoc(LRef(t.loc), LIdx(t.loc), pathWith(t.loc, lf.Path))
			}
			v := e.fresh("hv", lf.Sort)
			nh := e.fresh(hn, h.S)
			e.fact(Eq(nh, Store(h, l, v)))
			st.heaps[hn] = nh
		}
	case "elems":
		for _, lf := range w.Leaves(t.typ) {
			hn, h := e.scalarHeapT(st, lf.Sort, lf.Type)
			nh := e.fresh(hn, h.S)
			l := Val{"l!", SLoc}
			in := e.inRange(l, SBase(t.slice), SLen(t.slice), lf.Path)
			body := Implies(Not(in), Eq(Select(nh, l), Select(h, l)))
			e.fact(quant("forall", []Val{l}, body, []string{Select(nh, l).T}))
			st.heaps[hn] = nh
		}
	case "map":
		mt := t.typ.Underlying().(*types.Map)
		dn, d, vn, vh, err := e.mapHeaps(st, mt)
		if err != nil {
			e.failed = err
			return
		}
		ks, _ := Select(d, t.loc).S.ArrayParts()
		_ = ks
		nd := e.fresh(dn, d.S)
		e.fact(Eq(nd, Store(d, t.loc, e.fresh("hvdom", Select(d, t.loc).S))))
		nv := e.fresh(vn, vh.S)
		e.fact(Eq(nv, Store(vh, t.loc, e.fresh("hvval", Select(vh, t.loc).S))))
		l := e.heap(st, "ML", ArraySort(SInt, BVSort(64)))
		nl := e.fresh("ML", l.S)
		ln := e.fresh("hvlen", BVSort(64))
		e.fact(And(Eq(nl, Store(l, t.loc, ln)), BVCmp("bvsge", ln, BV(64, 0))))
		st.heaps[dn] = nd
		st.heaps[vn] = nv
		st.heaps["ML"] = nl
	case "object":
		// every location of the object (all scalar heaps)
		names := map[string]Val{}
		for n, h := range e.base {
			names[n] = h
		}
		for n, h := range st.heaps {
			names[n] = h
		}
		var ks []string
		for n := range names {
			if strings.HasPrefix(n, "H_") {
				ks = append(ks, n)
			}
		}
		sort.Strings(ks)
		for _, n := range ks {
			h := names[n]
			nh := e.fresh(n, h.S)
			l := Val{"l!", SLoc}
			body := Implies(Not(Eq(LRef(l), LRef(t.loc))), Eq(Select(nh, l), Select(h, l)))
			e.fact(quant("forall", []Val{l}, body, []string{Select(nh, l).T}))
			st.heaps[n] = nh
		}
	}
}

func (e *Enc) heapAny(st *State, name string) Val {
	if h, ok := st.heaps[name]; ok {
		return h
	}
	if h, ok := e.base[name]; ok {
		return h
	}
	return Val{}
}

// externDefault: call of a function outside /repo without an assumed contract.
func (e *Enc) externDefault(fr *Frame, st *State, key string, sig *types.Signature, args []Val, argTypes []types.Type, pos token.Pos) []Val {
	pure := false
	matched := false
	for _, ex := range e.P.CS.Externs {
		if matchPattern(ex.Pattern, key) {
			pure = ex.Pure
			matched = true
			break
		}
	}
	if matched {
		e.assumedUsed["extern "+key+": pure (no heap effect, no panic, result unconstrained)"] = true
	} else {
		e.unspecExtern[key] = true
	}
	if !pure {
		e.havocAll(st)
	}
	nn := e.fresh("next", SInt)
	e.fact(Val{app("<=", st.next.T, nn.T), SBool})
	st.next = nn
	var results []Val
	for k := 0; k < sig.Results().Len(); k++ {
		rt := sig.Results().At(k).Type()
		r := e.fresh("x_"+mangle(lastPart(key)), e.P.W.SortOf(rt))
		e.assumeValid(st, r, rt)
		results = append(results, r)
	}
	return results
}

// matchPattern: exact match, or a single leading or trailing '*' wildcard.
func matchPattern(pat, key string) bool {
	if pat == key {
		return true
	}
	if strings.HasSuffix(pat, "*") && strings.HasPrefix(key, strings.TrimSuffix(pat, "*")) {
		return true
	}
	if strings.HasPrefix(pat, "*") && strings.HasSuffix(key, strings.TrimPrefix(pat, "*")) {
		return true
	}
	return false
}

func lastPart(s string) string {
	if i := strings.LastIndex(s, "."); i >= 0 {
		return s[i+1:]
	}
	return s
}

// ---------------------------------------------------------------------------
// builtins

func (e *Enc) builtin(fr *Frame, st *State, b *ssa.Builtin, c *ssa.CallCommon, args []Val, pos token.Pos) []Val {
	w := e.P.W
	switch b.Name() {
	case "len":
		switch t := c.Args[0].Type().Underlying().(type) {
		case *types.Slice:
			return []Val{SLen(args[0])}
		case *types.Basic:
			return []Val{StrLen(args[0])}
		case *types.Map:
			return []Val{e.mapLen(st, args[0])}
		case *types.Array:
			return []Val{BV(64, uint64(t.Len()))}
		case *types.Pointer:
			return []Val{BV(64, uint64(t.Elem().Underlying().(*types.Array).Len()))}
		case *types.Chan:
			return []Val{e.fresh("chanlen", BVSort(64))}
		}
	case "cap":
		switch t := c.Args[0].Type().Underlying().(type) {
		case *types.Slice:
			return []Val{SCap(args[0])}
		case *types.Array:
			return []Val{BV(64, uint64(t.Len()))}
		}
	case "append":
		return []Val{e.appendBuiltin(fr, st, c, args, pos)}
	case "copy":
		return []Val{e.copyBuiltin(fr, st, c, args, pos)}
	case "delete":
		mt := c.Args[0].Type().Underlying().(*types.Map)
		e.mapDelete(st, args[0], args[1], mt)
		return nil
	case "print", "println":
		return nil
	case "ssa:wrapnilchk":
		e.check(st, "safety", e.siteLabel(fr, "nil-deref", pos), Not(Eq(LRef(args[0]), IntLit(0))), pos)
		return []Val{args[0]}
	case "close":
		return nil
	case "min", "max":
		x, y := args[0], args[1]
		if !x.S.IsBV() {
			break
		}
		lt := "bvult"
		if isSigned(c.Args[0].Type()) {
			lt = "bvslt"
		}
		if b.Name() == "min" {
			return []Val{Ite(BVCmp(lt, x, y), x, y)}
		}
		return []Val{Ite(BVCmp(lt, x, y), y, x)}
	case "ssa:deferstack":
		return []Val{NilLoc}
	}
	_ = w
	e.failed = fmt.Errorf("%s: unsupported builtin %s", e.Unit, b.Name())
	return nil
}

// copyElems adds facts that nh equals h except that n elements at dst hold the
// contents of n elements at src (element type elem).
func (e *Enc) copyLeaf(st *State, lf Leaf, dst, src, n Val, extraKeep func(l Val) Val) {
	hn, h := e.scalarHeapT(st, lf.Sort, lf.Type)
	nh := e.fresh(hn, h.S)
	l := Val{"l!", SLoc}
	in := e.inRange(l, dst, n, lf.Path)
	srcLoc := MkLoc(LRef(src), BVOp("bvadd", LIdx(src), BVOp("bvsub", LIdx(l), LIdx(dst))), pathWith(src, lf.Path))
	body := Eq(Select(nh, l), Ite(in, Select(h, srcLoc), Select(h, l)))
	e.fact(quant("forall", []Val{l}, body, []string{Select(nh, l).T}))
	// the same fact indexed by element number (matches index-quantified invariants)
	i := Val{"i!", BVSort(64)}
	di := MkLoc(LRef(dst), BVOp("bvadd", LIdx(dst), i), pathWith(dst, lf.Path))
	si := MkLoc(LRef(src), BVOp("bvadd", LIdx(src), i), pathWith(src, lf.Path))
	ibody := Implies(And(BVCmp("bvsle", BV(64, 0), i), BVCmp("bvslt", i, n)), Eq(Select(nh, di), Select(h, si)))
	e.fact(quant("forall", []Val{i}, ibody, []string{Select(nh, di).T}))
	st.heaps[hn] = nh
}

func (e *Enc) copyBuiltin(fr *Frame, st *State, c *ssa.CallCommon, args []Val, pos token.Pos) Val {
	dst := args[0]
	dt := c.Args[0].Type().Underlying().(*types.Slice)
	var srcBase, srcLen Val
	if _, isStr := c.Args[1].Type().Underlying().(*types.Basic); isStr {
		// copy(bytes, string)
		n := e.name("copyn", Ite(BVCmp("bvslt", SLen(dst), StrLen(args[1])), SLen(dst), StrLen(args[1])))
		hn, h := e.scalarHeap(st, BVSort(8))
		nh := e.fresh(hn, h.S)
		l := Val{"l!", SLoc}
		in := e.inRange(l, SBase(dst), n, nil)
		f := e.P.W.Uninterp("str_at", []Sort{SStr, BVSort(64)}, BVSort(8))
		body := Eq(Select(nh, l), Ite(in, Val{app(f, args[1].T, BVOp("bvsub", LIdx(l), LIdx(SBase(dst))).T), BVSort(8)}, Select(h, l)))
		e.fact(quant("forall", []Val{l}, body, []string{Select(nh, l).T}))
		st.heaps[hn] = nh
		return n
	}
	srcBase, srcLen = SBase(args[1]), SLen(args[1])
	n := e.name("copyn", Ite(BVCmp("bvslt", SLen(dst), srcLen), SLen(dst), srcLen))
	for _, lf := range e.P.W.Leaves(dt.Elem()) {
		e.copyLeaf(st, lf, SBase(dst), srcBase, n, nil)
	}
	return n
}

func (e *Enc) appendBuiltin(fr *Frame, st *State, c *ssa.CallCommon, args []Val, pos token.Pos) Val {
	s := args[0]
	stype := c.Args[0].Type().Underlying().(*types.Slice)
	elem := stype.Elem()
	// second argument is a slice (variadic pack or spread)
	var add Val
	if _, isStr := c.Args[1].Type().Underlying().(*types.Basic); isStr {
		e.failed = fmt.Errorf("%s: append(bytes, string...) unsupported", e.Unit)
		return s
	}
	add = args[1]
	n := SLen(add)
	newLen := e.name("applen", BVOp("bvadd", SLen(s), n))
	grow := e.name("grow", BVCmp("bvsgt", newLen, SCap(s)))
	// in-place state
	inplace := st.clone()
	for _, lf := range e.P.W.Leaves(elem) {
		e.copyLeaf(inplace, lf, ElemLoc(SBase(s), SLen(s)), SBase(add), n, nil)
	}
	// grown state: fresh array with old contents then new ones
	grown := st.clone()
	nloc := e.alloc(grown, "append")
	ncap := e.fresh("appcap", BVSort(64))
	e.fact(And(BVCmp("bvsge", ncap, newLen), BVCmp("bvsle", ncap, BV(64, 1<<40))))
	for _, lf := range e.P.W.Leaves(elem) {
		e.copyLeaf(grown, lf, nloc, SBase(s), SLen(s), nil)
		e.copyLeaf(grown, lf, ElemLoc(nloc, SLen(s)), SBase(add), n, nil)
	}
	// merge
	gi := e.name("r_grow", And(st.reach, grow))
	ni := e.name("r_inpl", And(st.reach, Not(grow)))
	m := e.merge([]edgeState{{cond: gi, st: grown}, {cond: ni, st: inplace}}, "append")
	reach := st.reach
	*st = *m
	st.reach = reach
	res := Ite(grow, MkSlice(nloc, newLen, ncap), MkSlice(SBase(s), newLen, SCap(s)))
	// appending nothing to nil stays nil
	res = Ite(And(Eq(LRef(SBase(s)), IntLit(0)), Eq(n, BV(64, 0))), NilSlice, res)
	return e.name("app", res)
}

// ---------------------------------------------------------------------------
// intrinsics: functions given exact semantics instead of contracts

func (e *Enc) intrinsic(fr *Frame, st *State, key string, fn *ssa.Function, args []Val, pos token.Pos) ([]Val, bool) {
	u8 := types.Typ[types.Uint8]
	be := func(s Val, n int) Val {
		e.check(st, "safety", e.siteLabel(fr, "index", pos), BVCmp("bvsge", SLen(s), BV(64, uint64(n))), pos)
		var parts []Val
		for i := 0; i < n; i++ {
			parts = append(parts, e.load(st, ElemLoc(SBase(s), BV(64, uint64(i))), u8))
		}
		return Concat(parts...)
	}
	put := func(s, v Val, n int) {
		e.check(st, "safety", e.siteLabel(fr, "index", pos), BVCmp("bvsge", SLen(s), BV(64, uint64(n))), pos)
		for i := 0; i < n; i++ {
			hi := (n-i)*8 - 1
			e.store(st, ElemLoc(SBase(s), BV(64, uint64(i))), Extract(hi, hi-7, v), u8)
		}
	}
	switch key {
	case "(encoding/binary.bigEndian).Uint64":
		return []Val{e.name("be64", be(args[1], 8))}, true
	case "(encoding/binary.bigEndian).Uint32":
		return []Val{e.name("be32", be(args[1], 4))}, true
	case "(encoding/binary.bigEndian).Uint16":
		return []Val{e.name("be16", be(args[1], 2))}, true
	case "(encoding/binary.bigEndian).PutUint64":
		put(args[1], args[2], 8)
		return nil, true
	case "(encoding/binary.bigEndian).PutUint32":
		put(args[1], args[2], 4)
		return nil, true
	case "(encoding/binary.bigEndian).PutUint16":
		put(args[1], args[2], 2)
		return nil, true
	case "math/bits.Add64":
		x, y, c := ZExt(65, args[0]), ZExt(65, args[1]), ZExt(65, args[2])
		sum := e.name("add65", BVOp("bvadd", BVOp("bvadd", x, y), c))
		return []Val{Extract(63, 0, sum), ZExt(64, Extract(64, 64, sum))}, true
	case "math/bits.Sub64":
		x, y, b := ZExt(65, args[0]), ZExt(65, args[1]), ZExt(65, args[2])
		d := e.name("sub65", BVOp("bvsub", BVOp("bvsub", x, y), b))
		return []Val{Extract(63, 0, d), ZExt(64, Extract(64, 64, d))}, true
	case "math/bits.Mul64":
		x, y := ZExt(128, args[0]), ZExt(128, args[1])
		p := e.name("mul128", BVOp("bvmul", x, y))
		return []Val{Extract(127, 64, p), Extract(63, 0, p)}, true
	}
	return nil, false
}

// ---------------------------------------------------------------------------
// go statements, guards, function-type conversions

func (e *Enc) goStmt(fr *Frame, st *State, in *ssa.Go) {
	c := in.Common()
	e.abstractions["go statement: callee precondition checked, effects of the new goroutine not sequenced"] = true
	if c.IsInvoke() {
		return
	}
	var args []Val
	for _, a := range c.Args {
		args = append(args, e.val(fr, st, a))
	}
	var fn *ssa.Function
	switch v := c.Value.(type) {
	case *ssa.Function:
		fn = v
	case *ssa.MakeClosure:
		fn = v.Fn.(*ssa.Function)
	}
	if fn == nil {
		return
	}
	// bound-method wrappers and closures: find the real callee contract
	key := funcKey(fn)
	// bound-method wrapper: the receiver is the closure binding
	target := fn
	if mc, ok := c.Value.(*ssa.MakeClosure); ok && strings.HasSuffix(fn.Name(), "$bound") && len(mc.Bindings) == 1 {
		if fo, ok := fn.Object().(*types.Func); ok {
			if t := e.P.SSA.FuncValue(fo); t != nil {
				target = t
				args = append([]Val{e.val(fr, st, mc.Bindings[0])}, args...)
			}
		}
	}
	key = funcKey(target)
	if fc, ok := e.P.CS.Funcs[key]; ok {
		// only the precondition of the spawned function is checked here
		bind, _ := e.contractBindings(fc, target.Signature, args, false, nil)
		ec := &EvalCtx{e: e, st: st, old: st, bind: bind, spec: fc.Spec}
		for i, rq := range fc.Requires {
			cnd, err := ec.evalBool(rq.Expr)
			if err != nil {
				e.failed = fmt.Errorf("%s:%d: %v", rq.File, rq.Line, err)
				return
			}
			lab := rq.Label
			if lab == "" {
				lab = fmt.Sprintf("%d", i+1)
			}
			e.oblig(st, "pre", e.siteLabel(fr, "go "+target.Name()+":"+lab, in.Pos()), cnd, in.Pos(), rq.Tags, rq)
		}
		e.contractsUsed[fc.Key] = true
		// ownership handed over to the new goroutine: the tokens become false for the spawner
		for _, tr := range fc.Transfers {
			ix := tr.(*SIndex)
			id, ok := ix.X.(*SIdent)
			if !ok || e.P.CS.GhostVars[id.Name] == nil {
				e.failed = fmt.Errorf("%s:%d: transfers: %s is not a ghost variable", fc.File, fc.Line, specString(ix.X))
				return
			}
			arr, err := ec.eval(ix.X)
			if err != nil {
				e.failed = fmt.Errorf("%s:%d: transfers: %v", fc.File, fc.Line, err)
				return
			}
			idx, err := ec.eval(ix.I)
			if err != nil {
				e.failed = fmt.Errorf("%s:%d: transfers: %v", fc.File, fc.Line, err)
				return
			}
			name := "GV_" + id.Name
			nh := e.fresh(name, arr.S)
			e.fact(Eq(nh, Store(arr.Val, idx.Val, False)))
			st.heaps[name] = nh
		}
	}
}

type guardInfo struct {
	by      string
	isField bool
}

func (e *Enc) guardAccess(fr *Frame, st *State, addr ssa.Value, write bool, pos token.Pos) {
	if len(e.P.CS.Guards) == 0 {
		return
	}
	switch a := addr.(type) {
	case *ssa.FieldAddr:
		pt := a.X.Type().Underlying().(*types.Pointer).Elem()
		nt, ok := pt.(*types.Named)
		if !ok {
			return
		}
		key := nt.Obj().Pkg().Path() + "." + nt.Obj().Name()
		stt := pt.Underlying().(*types.Struct)
		fname := stt.Field(a.Field).Name()
		for _, g := range e.P.CS.Guards {
			if g.Type == key && g.Field == fname {
				// the mutex is field g.By of the same struct
				base, ok := fr.vals[a.X]
				if !ok {
					return
				}
				var idx []int
				var ts []types.Type
				ok = false
				for _, alt := range strings.Split(g.By, "|") { // alternative mutex field names (Mutex|RWMutex)
					if idx, ts, ok = findField(pt, alt); ok {
						break
					}
				}
				if !ok {
					e.failed = fmt.Errorf("guard: no field %s in %s", g.By, key)
					return
				}
				loc := base
				var ft types.Type
				for k, i := range idx {
					si := e.P.W.StructOf(ts[k])
					loc = FieldLoc(loc, si.Fields[i].FID)
					ft = si.Fields[i].Type
				}
				e.checkHeld(fr, st, loc, ft, write, fname, pos)
			}
		}
	case *ssa.Global:
		key := a.Pkg.Pkg.Path() + "." + a.Name()
		for _, g := range e.P.CS.Guards {
			if g.Type == "" && g.Field == key {
				i := strings.LastIndex(g.By, ".")
				sp := e.P.SSA.ImportedPackage(g.By[:i])
				if sp == nil {
					e.failed = fmt.Errorf("guard: unknown package in %s", g.By)
					return
				}
				mg, ok := sp.Members[g.By[i+1:]].(*ssa.Global)
				if !ok {
					e.failed = fmt.Errorf("guard: unknown mutex %s", g.By)
					return
				}
				e.checkHeld(fr, st, e.globalLoc(mg), mg.Type().(*types.Pointer).Elem(), write, a.Name(), pos)
			}
		}
	}
}

func (e *Enc) checkHeld(fr *Frame, st *State, mloc Val, mtype types.Type, write bool, what string, pos token.Pos) {
	held := Select(e.heap(st, "G_held", ArraySort(SLoc, SBool)), mloc)
	cond := held
	if !write && strings.HasSuffix(mtype.String(), "RWMutex") {
		rheld := Select(e.heap(st, "G_rheld", ArraySort(SLoc, SBool)), mloc)
		cond = Or(held, rheld)
	}
	// objects allocated by the function itself are not yet shared
	if e.entry != nil {
		cond = Or(cond, Val{app(">=", LRef(mloc).T, e.entry.next.T), SBool})
	}
	kind := "read"
	if write {
		kind = "write"
	}
	e.check(st, "lock", e.siteLabel(fr, "guarded-"+kind+":"+what, pos), cond, pos)
}

// funcTypeConversion: a function converted to a contracted function type must
// be declared (and verified) as implementing that type contract.
func (e *Enc) funcTypeConversion(fr *Frame, st *State, in *ssa.ChangeType, x Val) {
	named, ok := in.Type().(*types.Named)
	if !ok {
		return
	}
	key := named.Obj().Pkg().Path() + "." + named.Obj().Name()
	if _, ok := e.P.CS.Types[key]; !ok {
		return
	}
	var fn *ssa.Function
	switch v := in.X.(type) {
	case *ssa.Function:
		fn = v
	case *ssa.MakeClosure:
		fn = v.Fn.(*ssa.Function)
	}
	ok2 := False
	desc := "unknown function value"
	if fn != nil {
		target := fn
		// bound method wrapper: the real method
		if strings.HasSuffix(fn.Name(), "$bound") && fn.Object() != nil {
			if sp := e.P.SSA.FuncValue(fn.Object().(*types.Func)); sp != nil {
				target = sp
			}
		}
		desc = funcKey(target)
		if fc, ok := e.P.CS.Funcs[funcKey(target)]; ok {
			for _, im := range fc.Implements {
				if im == key {
					ok2 = True
				}
			}
		}
	}
	e.oblig(st, "refine", e.siteLabel(fr, "implements:"+named.Obj().Name()+":"+lastPart(desc), in.Pos()), ok2, in.Pos(), nil, nil)
	// a bound method value: the preconditions of the method that speak about the receiver only
	// (its state invariant) must hold when the handler value is created
	if mc, ok := in.X.(*ssa.MakeClosure); ok && fn != nil && strings.HasSuffix(fn.Name(), "$bound") && len(mc.Bindings) == 1 {
		var target *ssa.Function
		if fo, ok := fn.Object().(*types.Func); ok {
			target = e.P.SSA.FuncValue(fo)
		}
		if target != nil {
			if fc, ok := e.P.CS.Funcs[funcKey(target)]; ok && target.Signature.Recv() != nil {
				recv := e.val(fr, st, mc.Bindings[0])
				bind := map[string]TV{"self": {Val: recv, Ty: target.Signature.Recv().Type()}}
				if n := target.Signature.Recv().Name(); n != "" {
					bind[n] = bind["self"]
				}
				for i, rq := range fc.Requires {
					ec := &EvalCtx{e: e, st: st, old: st, bind: bind, spec: fc.Spec}
					budget := conjBudget
					cs, err := ec.evalConjuncts(rq.Expr, &budget)
					if err != nil {
						continue // mentions other parameters: not a receiver invariant
					}
					for ci, cnd := range cs {
						e.oblig(st, "refine", e.siteLabel(fr, fmt.Sprintf("receiver-invariant:%s:%d%s", lastPart(funcKey(target)), i+1, conjSuffix(ci)), in.Pos()), cnd, in.Pos(), []string{"C19"}, rq)
					}
				}
			}
		}
	}
}

// releaseProtected: the invariant that acquirers assume must hold when the mutex is released.
func (e *Enc) releaseProtected(fr *Frame, st *State, recv ssa.Value, pos token.Pos) {
	pds, self, selfT := e.protectsOf(fr, recv)
	for _, pd := range pds {
		if pd.Invariant == nil {
			continue
		}
		bind := map[string]TV{"self": {Val: self, Ty: selfT}}
		ec := &EvalCtx{e: e, st: st, old: st, bind: bind, spec: pd.Spec}
		// one obligation per conjunct (each is assumed once it has been checked)
		budget := conjBudget
		cs, err := ec.evalConjuncts(pd.Invariant, &budget)
		if err != nil {
			e.failed = fmt.Errorf("%s:%d: protects invariant: %v", pd.File, pd.Line, err)
			return
		}
		for ci, inv := range cs {
			e.check(st, "lock", e.siteLabel(fr, "protected-invariant-restored"+conjSuffix(ci), pos), inv, pos)
		}
	}
}

// protectsOf returns the protects declarations for the mutex field whose address is recv.
func (e *Enc) protectsOf(fr *Frame, recv ssa.Value) ([]*ProtectsDecl, Val, types.Type) {
	fa, ok := recv.(*ssa.FieldAddr)
	if !ok {
		return nil, Val{}, nil
	}
	pt, ok := fa.X.Type().Underlying().(*types.Pointer)
	if !ok {
		return nil, Val{}, nil
	}
	nt, ok := pt.Elem().(*types.Named)
	if !ok || nt.Obj().Pkg() == nil {
		return nil, Val{}, nil
	}
	key := nt.Obj().Pkg().Path() + "." + nt.Obj().Name()
	fname := pt.Elem().Underlying().(*types.Struct).Field(fa.Field).Name()
	self, ok := fr.vals[fa.X]
	if !ok {
		return nil, Val{}, nil
	}
	var out []*ProtectsDecl
	for _, pd := range e.P.CS.Protects {
		for _, alt := range strings.Split(pd.Field, "|") {
			if alt == fname && pd.Type == key {
				out = append(out, pd)
			}
		}
	}
	return out, self, fa.X.Type()
}

// acquireProtected: after acquiring mutex field m of an object x, the state declared as
// protected by x.m is arbitrary (other goroutines may have changed it while the lock was free)
// up to its invariant; old() of that state now refers to this moment.
func (e *Enc) acquireProtected(fr *Frame, st *State, recv ssa.Value, pos token.Pos) {
	fa, ok := recv.(*ssa.FieldAddr)
	if !ok {
		return
	}
	pt, ok := fa.X.Type().Underlying().(*types.Pointer)
	if !ok {
		return
	}
	nt, ok := pt.Elem().(*types.Named)
	if !ok || nt.Obj().Pkg() == nil {
		return
	}
	key := nt.Obj().Pkg().Path() + "." + nt.Obj().Name()
	fname := pt.Elem().Underlying().(*types.Struct).Field(fa.Field).Name()
	for _, pd := range e.P.CS.Protects {
		match := false
		for _, alt := range strings.Split(pd.Field, "|") {
			if alt == fname {
				match = true
			}
		}
		if pd.Type != key || !match {
			continue
		}
		self, ok := fr.vals[fa.X]
		if !ok {
			return
		}
		bind := map[string]TV{"self": {Val: self, Ty: fa.X.Type()}}
		ec := &EvalCtx{e: e, st: st, old: st, bind: bind, spec: pd.Spec}
		for _, tx := range pd.Targets {
			t, err := ec.evalModTarget(tx)
			if err != nil {
				e.failed = fmt.Errorf("%s:%d: protects: %v", pd.File, pd.Line, err)
				return
			}
			e.havocTarget(st, t)
		}
		if pd.Invariant != nil {
			ec2 := &EvalCtx{e: e, st: st, old: st, bind: bind, spec: pd.Spec}
			inv, err := ec2.evalBool(pd.Invariant)
			if err != nil {
				e.failed = fmt.Errorf("%s:%d: protects invariant: %v", pd.File, pd.Line, err)
				return
			}
			e.assume(st, inv)
		}
		// rebase old() for the protected state on this path
		for _, tx := range pd.Targets {
			if call, ok := tx.(*SCall); ok {
				if id, ok := call.Fun.(*SIdent); ok {
					if id.Name == "mapc" {
						for n, h := range st.heaps {
							if strings.HasPrefix(n, "MD_") || strings.HasPrefix(n, "MV_") || n == "ML" {
								if st.oldOv == nil {
									st.oldOv = map[string]Val{}
								}
								st.oldOv[n] = h
							}
						}
						continue
					}
					name := "G_" + id.Name
					if h, ok := st.heaps[name]; ok {
						if st.oldOv == nil {
							st.oldOv = map[string]Val{}
						}
						st.oldOv[name] = h
					}
				}
			}
		}
		e.abstractions["lock acquisition havocs the state protected by "+key+"."+fname+" (other goroutines) and rebases old() to the acquisition"] = true
	}
}

func sortedHeapNames(m map[string]Val) []string {
	var out []string
	for n := range m {
		out = append(out, n)
	}
	sort.Strings(out)
	return out
}

// splitConj flattens the top-level conjunction of a spec expression.
func splitConj(x SExpr) []SExpr {
	if b, ok := x.(*SBinary); ok && b.Op == "&&" {
		return append(splitConj(b.X), splitConj(b.Y)...)
	}
	return []SExpr{x}
}
