package leasetime

// Scenario replay for the setup obligation of the lease_time plugin (C19): durations at and beyond
// what option 51 (unsigned 32-bit seconds) can carry. Oracle: an accepted configuration yields
// option 51 carrying exactly the configured number of whole seconds.

import (
	"encoding/binary"
	"testing"
	"time"

	"github.com/insomniacslk/dhcp/dhcpv4"
)

func TestGovcReplay(t *testing.T) {
	for _, arg := range []string{"0s", "1h", "4294967295s", "4294967296s", "-1h", "-1s", "2000000h"} {
		h, err := setup4(arg)
		if err != nil {
			t.Logf("lease time %s rejected: %v", arg, err)
			continue
		}
		d, _ := time.ParseDuration(arg)
		req, _ := dhcpv4.New(dhcpv4.WithMessageType(dhcpv4.MessageTypeDiscover))
		resp, _ := dhcpv4.NewReplyFromRequest(req)
		out, _ := h(req, resp)
		back, err := dhcpv4.FromBytes(out.ToBytes())
		if err != nil {
			t.Fatalf("GOVC-REPRODUCED: lease time %s accepted, reply does not parse: %v", arg, err)
		}
		raw := back.Options.Get(dhcpv4.OptionIPAddressLeaseTime)
		if len(raw) != 4 || int64(binary.BigEndian.Uint32(raw)) != int64(d/time.Second) {
			t.Fatalf("GOVC-REPRODUCED: lease time %s is accepted at start-up, but the reply carries option 51 = %d seconds: the configured duration cannot be honoured on the wire", arg, binary.BigEndian.Uint32(raw))
		}
	}
}
