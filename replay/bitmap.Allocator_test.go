package bitmap

// Replay of govc counterexamples for (*Allocator).Allocate / Free on the real code.
// The allocator is rebuilt from the model (pool, allocation size, which of the
// first blocks are outstanding) through the public API; the oracle is an
// independent reference model (a set of outstanding block indices, math/big).

import (
	"encoding/json"
	"fmt"
	"math/big"
	"net"
	"os"
	"testing"
)

type govcSlice struct {
	Nil   bool  `json:"nil"`
	Len   int   `json:"len"`
	Bytes []int `json:"bytes"`
}

func (s govcSlice) bytes() []byte {
	if s.Nil {
		return nil
	}
	b := make([]byte, s.Len)
	for i := range b {
		if i < len(s.Bytes) {
			b[i] = byte(s.Bytes[i])
		}
	}
	return b
}

type govcNet struct {
	IP   govcSlice `json:"IP"`
	Mask govcSlice `json:"Mask"`
}

func (n govcNet) ipnet() net.IPNet { return net.IPNet{IP: n.IP.bytes(), Mask: n.Mask.bytes()} }

func ones(m []byte) (int, bool) {
	n := 0
	seenZero := false
	for _, b := range m {
		for i := 7; i >= 0; i-- {
			if b&(1<<uint(i)) != 0 {
				if seenZero {
					return 0, false
				}
				n++
			} else {
				seenZero = true
			}
		}
	}
	return n, true
}

func TestGovcReplay(t *testing.T) {
	var in struct {
		Unit string `json:"unit"`
		A    struct {
			Containing govcNet `json:"containing"`
			Page       string  `json:"page"`
			Bitmap     struct {
				Bits []bool `json:"bits"`
			} `json:"bitmap"`
		} `json:"a"`
		Hint   govcNet `json:"hint"`
		Prefix govcNet `json:"prefix"`
	}
	raw, err := os.ReadFile(os.Getenv("GOVC_REPLAY_INPUT"))
	if err != nil {
		t.Skip("no input")
	}
	if err := json.Unmarshal(raw, &in); err != nil {
		t.Fatal(err)
	}
	pool := in.A.Containing.ipnet()
	var page int
	fmt.Sscan(in.A.Page, &page)
	L, canon := ones(pool.Mask)
	if len(pool.IP) != 16 || len(pool.Mask) != 16 || !canon || page < L || page > 128 || page-L >= 64 {
		t.Fatalf("GOVC-PRECONDITION not met: pool %v page %d", pool, page)
	}
	base := new(big.Int).SetBytes(pool.IP)
	if new(big.Int).Lsh(new(big.Int).Rsh(base, uint(128-L)), uint(128-L)).Cmp(base) != 0 {
		t.Fatalf("GOVC-PRECONDITION not met: pool base not aligned")
	}
	a, err := NewBitmapAllocator(pool, page)
	if err != nil {
		t.Fatalf("GOVC-PRECONDITION: allocator rejected: %v", err)
	}
	nblocks := new(big.Int).Lsh(big.NewInt(1), uint(page-L))
	blockBase := func(i int64) net.IP {
		v := new(big.Int).Add(base, new(big.Int).Lsh(big.NewInt(i), uint(128-page)))
		b := v.Bytes()
		ip := make(net.IP, 16)
		copy(ip[16-len(b):], b)
		return ip
	}
	// reference model: outstanding[i]
	outstanding := map[int64]bool{}
	for i, set := range in.A.Bitmap.Bits {
		if !set || big.NewInt(int64(i)).Cmp(nblocks) >= 0 {
			continue
		}
		got, err := a.Allocate(net.IPNet{IP: blockBase(int64(i)), Mask: net.CIDRMask(page, 128)})
		if err != nil || !got.IP.Equal(blockBase(int64(i))) {
			t.Fatalf("GOVC-PRECONDITION: cannot mark block %d outstanding (%v, %v)", i, got, err)
		}
		outstanding[int64(i)] = true
	}
	index := func(x *big.Int) (int64, bool) { // block index of address x if it lies in the pool
		if new(big.Int).Rsh(x, uint(128-L)).Cmp(new(big.Int).Rsh(base, uint(128-L))) != 0 {
			return 0, false
		}
		d := new(big.Int).Rsh(new(big.Int).Sub(x, base), uint(128-page))
		return d.Int64(), true
	}
	defer func() {
		if r := recover(); r != nil {
			t.Fatalf("GOVC-REPRODUCED: panic: %v", r)
		}
	}()
	switch in.Unit {
	case "bitmap.(*Allocator).Allocate":
		hint := in.Hint.ipnet()
		got, aerr := a.Allocate(hint)
		t.Logf("pool %v /%d, outstanding %v: Allocate(%v) = %v, %v", &pool, page, outstanding, hint, got, aerr)
		full := int64(len(outstanding)) == nblocks.Int64() && nblocks.IsInt64()
		if (aerr != nil) != full {
			t.Fatalf("GOVC-REPRODUCED: Allocate error=%v but pool full=%v", aerr, full)
		}
		if aerr != nil {
			return
		}
		i, in := index(new(big.Int).SetBytes(got.IP))
		if len(got.IP) != 16 || !in || outstanding[i] || !got.IP.Equal(blockBase(i)) {
			t.Fatalf("GOVC-REPRODUCED: returned block %v is not a free block of the pool", got)
		}
		// hint honoured?
		h := hint.IP
		if len(h) == 4 {
			h = h.To16()
		}
		if len(h) == 16 {
			if hi, ok := index(new(big.Int).SetBytes(h)); ok && !outstanding[hi] && hi != i {
				t.Fatalf("GOVC-REPRODUCED: hint %v names free block %d but block %d (%v) was returned", hint.IP, hi, i, got.IP)
			}
		}
	case "bitmap.(*Allocator).Free":
		p := in.Prefix.ipnet()
		if len(p.IP) != 16 || len(p.Mask) != 16 {
			t.Fatalf("GOVC-PRECONDITION not met: prefix not 16-byte")
		}
		pb := new(big.Int).And(new(big.Int).SetBytes(p.IP), new(big.Int).SetBytes(p.Mask))
		i, inPool := index(pb)
		want := inPool && outstanding[i]
		ferr := a.Free(p)
		t.Logf("pool %v /%d, outstanding %v: Free(%v) = %v (in pool: %v, block %d)", &pool, page, outstanding, &p, ferr, inPool, i)
		if (ferr == nil) != want {
			t.Fatalf("GOVC-REPRODUCED: Free(%v) returned %v, but prefix in pool=%v and its block outstanding=%v", &p, ferr, inPool, want)
		}
		// every other outstanding block must still be outstanding: re-allocating it with a hint must not return it
		for j := range outstanding {
			if want && j == i {
				continue
			}
			got, aerr := a.Allocate(net.IPNet{IP: blockBase(j), Mask: net.CIDRMask(page, 128)})
			if aerr == nil && got.IP.Equal(blockBase(j)) {
				t.Fatalf("GOVC-REPRODUCED: after Free(%v)=%v, outstanding block %d (%v) was handed out again", &p, ferr, j, got.IP)
			}
		}
	default:
		t.Fatalf("GOVC-PRECONDITION: unknown unit %q", in.Unit)
	}
}
