package rangeplugin

// Replay for the range plugin (C03): a DISCOVER with the hardware-address length of the model is
// handled on a fresh lease database, then the plugin is "restarted" on the database it has written.
// Oracle: the restart succeeds and restores exactly the bindings handed out.

import (
	"encoding/json"
	"fmt"
	"net"
	"os"
	"path/filepath"
	"testing"
	"time"

	"github.com/insomniacslk/dhcp/dhcpv4"
)

func TestGovcReplay(t *testing.T) {
	var in struct {
		HWLen string `json:"hwlen"`
	}
	raw, err := os.ReadFile(os.Getenv("GOVC_REPLAY_INPUT"))
	if err != nil {
		t.Skip("no input")
	}
	json.Unmarshal(raw, &in)
	n := 6
	fmt.Sscan(in.HWLen, &n)
	if n < 0 || n > 16 {
		t.Fatalf("GOVC-PRECONDITION not met: hardware address length %d", n)
	}
	db := filepath.Join(t.TempDir(), "leases.sqlite3")
	h, err := setupRange(db, "10.0.0.10", "10.0.0.20", "1h")
	if err != nil {
		t.Fatalf("GOVC-PRECONDITION: %v", err)
	}
	hw := make(net.HardwareAddr, n)
	for i := range hw {
		hw[i] = byte(i + 1)
	}
	req, _ := dhcpv4.NewDiscovery(net.HardwareAddr{1, 2, 3, 4, 5, 6})
	req.ClientHWAddr = hw
	resp, _ := dhcpv4.NewReplyFromRequest(req)
	out, _ := h(req, resp)
	if out == nil {
		t.Fatalf("GOVC-PRECONDITION: no lease handed out")
	}
	t.Logf("client with a %d-byte hardware address %q was leased %v", n, hw.String(), out.YourIPAddr)
	// restart on the same database
	ldb, err := loadDB(db)
	if err != nil {
		t.Fatalf("GOVC-REPRODUCED: cannot reopen the lease database: %v", err)
	}
	recs, err := loadRecords(ldb)
	if err != nil {
		t.Fatalf("GOVC-REPRODUCED: restart on the database the server wrote fails: %v", err)
	}
	r, ok := recs[hw.String()]
	if !ok || !r.IP.Equal(out.YourIPAddr) || len(recs) != 1 {
		t.Fatalf("GOVC-REPRODUCED: after restart the bindings are %v, want %s -> %v", recs, hw, out.YourIPAddr)
	}
	// expiry scenario: the same client comes back a little over two seconds later and is promised a
	// full lease again; the stored expiry must cover it (one-second resolution of the store)
	time.Sleep(2200 * time.Millisecond)
	resp2, _ := dhcpv4.NewReplyFromRequest(req)
	out2, _ := h(req, resp2)
	promisedEnd := time.Now().Add(out2.IPAddressLeaseTime(0))
	ldb2, _ := loadDB(db)
	recs2, err := loadRecords(ldb2)
	if err != nil {
		t.Fatalf("GOVC-REPRODUCED: restart on the database the server wrote fails: %v", err)
	}
	if r2 := recs2[hw.String()]; r2 == nil || int64(r2.expires) < promisedEnd.Unix()-1 {
		t.Fatalf("GOVC-REPRODUCED: stored expiry %v is earlier than the end of the lease just promised (%d)", r2, promisedEnd.Unix())
	}
}
