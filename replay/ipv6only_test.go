package ipv6only

// Replay of a govc counterexample for ipv6only.Handler4 on the real code. The request is
// rebuilt from the model's facts (parameter request list present? does it list option 108?).
// Oracle (C17): option 108 is sent, and processing stopped, only for clients that list it.

import (
	"encoding/json"
	"os"
	"testing"

	"github.com/insomniacslk/dhcp/dhcpv4"
)

func TestGovcReplay(t *testing.T) {
	var in struct {
		PRL   string `json:"prl_present"`
		Lists string `json:"lists108"`
	}
	raw, err := os.ReadFile(os.Getenv("GOVC_REPLAY_INPUT"))
	if err != nil {
		t.Skip("no input")
	}
	if err := json.Unmarshal(raw, &in); err != nil {
		t.Fatal(err)
	}
	req, _ := dhcpv4.NewDiscovery([]byte{2, 0, 0, 0, 0, 1})
	req.Options.Del(dhcpv4.OptionParameterRequestList)
	if in.PRL == "1" {
		codes := []dhcpv4.OptionCode{dhcpv4.OptionSubnetMask}
		if in.Lists == "1" {
			codes = append(codes, dhcpv4.OptionIPv6OnlyPreferred)
		}
		req.UpdateOption(dhcpv4.OptParameterRequestList(codes...))
	}
	explicit := in.PRL == "1" && in.Lists == "1"
	resp, _ := dhcpv4.NewReplyFromRequest(req)
	out, stop := Handler4(req, resp)
	t.Logf("request list present=%v lists 108=%v: stop=%v, option 108 in reply=%v", in.PRL == "1", in.Lists == "1", stop, out != nil && out.Options.Has(dhcpv4.OptionIPv6OnlyPreferred))
	if stop != explicit || (out != nil && out.Options.Has(dhcpv4.OptionIPv6OnlyPreferred)) != explicit {
		t.Fatalf("GOVC-REPRODUCED: client lists option 108 explicitly: %v, but stop=%v and option 108 sent=%v", explicit, stop, out != nil && out.Options.Has(dhcpv4.OptionIPv6OnlyPreferred))
	}
}
