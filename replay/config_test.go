package config

// Scenario replay for the getListenAddress obligations (C18): a table of listen-address spellings
// [address][%zone][:port] for both protocols. Oracle: the address, zone and port of the result are
// the written ones; the protocol's wildcard address and default port appear only where the text
// has none; a wrong family is an error.

import (
	"net"
	"testing"
)

func TestGovcReplay(t *testing.T) {
	for _, tc := range []struct {
		addr string
		ver  protocolVersion
		ip   net.IP
		zone string
		port int
		bad  bool
	}{
		{"", protocolV4, net.IPv4zero, "", 67, false},
		{"", protocolV6, net.IPv6unspecified, "", 547, false},
		{":0", protocolV4, net.IPv4zero, "", 0, false},
		{"0.0.0.0:0", protocolV4, net.IPv4zero, "", 0, false},
		{"[::]:0", protocolV6, net.IPv6unspecified, "", 0, false},
		{"127.0.0.1:1067", protocolV4, net.IPv4(127, 0, 0, 1), "", 1067, false},
		{"127.0.0.1:67", protocolV4, net.IPv4(127, 0, 0, 1), "", 67, false},
		{"127.0.0.1:65535", protocolV4, net.IPv4(127, 0, 0, 1), "", 65535, false},
		{"127.0.0.1", protocolV4, net.IPv4(127, 0, 0, 1), "", 67, false},
		{"%lo:00", protocolV4, net.IPv4zero, "lo", 0, false},
		{"%lo", protocolV6, net.IPv6unspecified, "lo", 547, false},
		{"[fe80::1%eth0]:0", protocolV6, net.ParseIP("fe80::1"), "eth0", 0, false},
		{"[fe80::1%eth0]:1547", protocolV6, net.ParseIP("fe80::1"), "eth0", 1547, false},
		{"[2001:db8::1]", protocolV6, net.ParseIP("2001:db8::1"), "", 547, false},
		{"::1", protocolV4, nil, "", 0, true},
		{"127.0.0.1", protocolV6, nil, "", 0, true},
		{"127.0.0.1:x", protocolV4, nil, "", 0, true},
	} {
		c := New()
		got, err := c.getListenAddress(tc.addr, tc.ver)
		if tc.bad {
			if err == nil {
				t.Fatalf("GOVC-REPRODUCED: listen %q for DHCPv%d is accepted as %v, want an error", tc.addr, tc.ver, got)
			}
			continue
		}
		if err != nil {
			t.Fatalf("GOVC-REPRODUCED: listen %q for DHCPv%d is rejected: %v", tc.addr, tc.ver, err)
		}
		if !got.IP.Equal(tc.ip) || got.Zone != tc.zone || got.Port != tc.port {
			t.Fatalf("GOVC-REPRODUCED: listen %q for DHCPv%d gives %s (zone %q, port %d), want %s zone %q port %d",
				tc.addr, tc.ver, got.IP, got.Zone, got.Port, tc.ip, tc.zone, tc.port)
		}
	}
}
