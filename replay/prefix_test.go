package prefix

// Scenario replays for the prefix-delegation plugin (state is driven through the public
// handler first, so that an unreachable pre-state cannot be mistaken for a defect). The
// scenario is chosen by the refuted obligation named in the input.

import (
	"encoding/json"
	"net"
	"os"
	"strings"
	"testing"
	"time"

	"github.com/coredhcp/coredhcp/plugins/allocators/bitmap"
	"github.com/insomniacslk/dhcp/dhcpv6"
)

func govcRequest(t *testing.T, mac byte, iapds ...*dhcpv6.OptIAPD) *dhcpv6.Message {
	m, err := dhcpv6.NewMessage()
	if err != nil {
		t.Fatal(err)
	}
	m.MessageType = dhcpv6.MessageTypeRequest
	m.AddOption(dhcpv6.OptClientID(&dhcpv6.DUIDLL{HWType: 1, LinkLayerAddr: net.HardwareAddr{2, 0, 0, 0, 0, mac}}))
	for _, o := range iapds {
		m.AddOption(o)
	}
	return m
}

func govcExchange(t *testing.T, h func(req, resp dhcpv6.DHCPv6) (dhcpv6.DHCPv6, bool), req *dhcpv6.Message) []*net.IPNet {
	resp, err := dhcpv6.NewReplyFromMessage(req)
	if err != nil {
		t.Fatal(err)
	}
	out, _ := h(req, resp)
	if out == nil {
		return nil
	}
	var got []*net.IPNet
	for _, ia := range out.(*dhcpv6.Message).Options.IAPD() {
		for _, p := range ia.Options.Prefixes() {
			got = append(got, p.Prefix)
		}
	}
	return got
}

func TestGovcReplay(t *testing.T) {
	var in struct {
		Obligation string `json:"obligation"`
	}
	raw, err := os.ReadFile(os.Getenv("GOVC_REPLAY_INPUT"))
	if err != nil {
		t.Skip("no input")
	}
	json.Unmarshal(raw, &in)
	if strings.Contains(in.Obligation, "NewBitmapAllocator") {
		// C19: the allocator needs a 16-byte IPv6 pool; which argument vectors reach it with something else?
		for _, args := range [][]string{{"10.0.0.0/8", "24"}, {"::ffff:10.0.0.0/104", "120"}} {
			hf, err := setupPrefix(args...)
			if err != nil {
				t.Logf("setupPrefix(%q) rejected: %v", args, err)
				continue
			}
			_, pool, _ := net.ParseCIDR(args[0])
			func() {
				defer func() {
					if r := recover(); r != nil {
						t.Fatalf("GOVC-REPRODUCED: setupPrefix(%q) succeeded, then the handler panicked: %v", args, r)
					}
				}()
				hh := func(req, resp dhcpv6.DHCPv6) (dhcpv6.DHCPv6, bool) { return hf(req, resp) }
				got := govcExchange(t, hh, govcRequest(t, 1, &dhcpv6.OptIAPD{IaId: [4]byte{1}}))
				for _, p := range got {
					if !pool.Contains(p.IP) {
						t.Fatalf("GOVC-REPRODUCED: setupPrefix(%q) succeeded, and the first delegation %v is not inside the pool %v", args, p, pool)
					}
				}
				govcExchange(t, hh, govcRequest(t, 2, &dhcpv6.OptIAPD{IaId: [4]byte{1}, Options: dhcpv6.PDOptions{Options: dhcpv6.Options{&dhcpv6.OptIAPrefix{Prefix: &net.IPNet{IP: net.IPv4(10, 1, 0, 0).To4(), Mask: net.CIDRMask(24, 32)}}}}}))
			}()
		}
		return
	}
	hf, err := setupPrefix("2001:db8::/48", "64")
	if err != nil {
		t.Fatalf("GOVC-PRECONDITION: %v", err)
	}
	h := func(req, resp dhcpv6.DHCPv6) (dhcpv6.DHCPv6, bool) { return hf(req, resp) }
	switch {
	case strings.Contains(in.Obligation, "nil-deref(h.Prefix"):
		// exchange 1 gives the client a lease; exchange 2 carries an IAPrefix of wire length 0 (Prefix == nil)
		first := govcExchange(t, h, govcRequest(t, 1, &dhcpv6.OptIAPD{IaId: [4]byte{1}}))
		if len(first) != 1 {
			t.Fatalf("GOVC-PRECONDITION: first exchange returned %v", first)
		}
		done := make(chan string, 1)
		go func() {
			defer func() {
				if r := recover(); r != nil {
					done <- "panic: " + r.(error).Error()
				}
			}()
			govcExchange(t, h, govcRequest(t, 1, &dhcpv6.OptIAPD{IaId: [4]byte{1}, Options: dhcpv6.PDOptions{Options: dhcpv6.Options{&dhcpv6.OptIAPrefix{Prefix: nil}}}}))
			done <- ""
		}()
		if msg := <-done; msg != "" {
			// is the plugin mutex still held? a later datagram would block forever
			locked := make(chan bool, 1)
			go func() { govcExchange(t, h, govcRequest(t, 2, &dhcpv6.OptIAPD{IaId: [4]byte{1}})); locked <- false }()
			select {
			case <-locked:
				t.Fatalf("GOVC-REPRODUCED: IA_PD with a zero-length IAPrefix on the client's second exchange: %s", msg)
			case <-time.After(2 * time.Second):
				t.Fatalf("GOVC-REPRODUCED: IA_PD with a zero-length IAPrefix on the client's second exchange: %s; the plugin mutex stays held and the next datagram blocks", msg)
			}
		}
	case strings.Contains(in.Obligation, "addressless-hint-is-empty"):
		first := govcExchange(t, h, govcRequest(t, 1, &dhcpv6.OptIAPD{IaId: [4]byte{1}}))
		second := govcExchange(t, h, govcRequest(t, 1, &dhcpv6.OptIAPD{IaId: [4]byte{1}}))
		t.Logf("hint-less IA_PD twice: first %v, second %v", first, second)
		if len(first) != 1 || len(second) != 1 || !first[0].IP.Equal(second[0].IP) {
			t.Fatalf("GOVC-REPRODUCED: a repeated hint-less IA_PD was answered with %v after %v (a new block is consumed on every retransmission)", second, first)
		}
	case strings.Contains(in.Obligation, "every-new-lease-is-recorded"):
		// one IA_PD with two out-of-pool hints: two new prefixes in one reply; then ask for the first again
		hint := func(s string) *dhcpv6.OptIAPrefix {
			_, n, _ := net.ParseCIDR(s)
			return &dhcpv6.OptIAPrefix{Prefix: n}
		}
		first := govcExchange(t, h, govcRequest(t, 1, &dhcpv6.OptIAPD{IaId: [4]byte{1}, Options: dhcpv6.PDOptions{Options: dhcpv6.Options{hint("2001:db9:1::/64"), hint("2001:db9:2::/64")}}}))
		if len(first) != 2 {
			t.Fatalf("GOVC-PRECONDITION: expected two delegated prefixes, got %v", first)
		}
		again := govcExchange(t, h, govcRequest(t, 1, &dhcpv6.OptIAPD{IaId: [4]byte{1}, Options: dhcpv6.PDOptions{Options: dhcpv6.Options{&dhcpv6.OptIAPrefix{Prefix: first[0]}}}}))
		t.Logf("delegated %v; asking for %v again returned %v", first, first[0], again)
		if len(again) != 1 || !again[0].IP.Equal(first[0].IP) {
			t.Fatalf("GOVC-REPRODUCED: the reply delegated %v, but renewing %v returned %v: the first prefix was not remembered", first, first[0], again)
		}
	case strings.Contains(in.Obligation, "lease-sent-runs-a-full-lease-duration"):
		// a client whose lease was last renewed three hours ago comes back (hint-less IA_PD, then an
		// exact-match renewal): the prefix must be sent with positive lifetimes, preferred <= valid <= 1h
		_, pool, _ := net.ParseCIDR("2001:db8::/48")
		alloc, err := bitmap.NewBitmapAllocator(*pool, 64)
		if err != nil {
			t.Fatalf("GOVC-PRECONDITION: %v", err)
		}
		hd := &Handler{Records: make(map[string][]lease), allocator: alloc}
		lifetimes := func(req *dhcpv6.Message) (out []*dhcpv6.OptIAPrefix) {
			resp, _ := dhcpv6.NewReplyFromMessage(req)
			r, _ := hd.Handle(req, resp)
			if r == nil {
				return nil
			}
			for _, ia := range r.(*dhcpv6.Message).Options.IAPD() {
				out = append(out, ia.Options.Prefixes()...)
			}
			return out
		}
		first := lifetimes(govcRequest(t, 1, &dhcpv6.OptIAPD{IaId: [4]byte{1}}))
		if len(first) != 1 {
			t.Fatalf("GOVC-PRECONDITION: first exchange returned %v", first)
		}
		for round, mk := range []func() *dhcpv6.Message{
			func() *dhcpv6.Message { return govcRequest(t, 1, &dhcpv6.OptIAPD{IaId: [4]byte{1}}) },
			func() *dhcpv6.Message {
				return govcRequest(t, 1, &dhcpv6.OptIAPD{IaId: [4]byte{1}, Options: dhcpv6.PDOptions{Options: dhcpv6.Options{&dhcpv6.OptIAPrefix{Prefix: first[0].Prefix}}}})
			},
		} {
			for k := range hd.Records {
				for i := range hd.Records[k] {
					hd.Records[k][i].Expire = time.Now().Add(-3 * time.Hour)
				}
			}
			got := lifetimes(mk())
			if len(got) != 1 {
				t.Fatalf("GOVC-PRECONDITION: round %d returned %v", round, got)
			}
			p := got[0]
			if p.PreferredLifetime <= 0 || p.ValidLifetime <= 0 || p.PreferredLifetime > p.ValidLifetime || p.ValidLifetime > time.Hour {
				t.Fatalf("GOVC-REPRODUCED: a client returning after its lease ran out is sent %v with preferred %v / valid %v (must be positive, preferred <= valid <= 1h)", p.Prefix, p.PreferredLifetime, p.ValidLifetime)
			}
		}
	default:
		t.Skip("no scenario for this obligation")
	}
}
