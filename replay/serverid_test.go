package serverid

// Replay of a govc counterexample for serverid.Handler4 on the real code. The request is
// rebuilt from the model's facts about siaddr and option 54 (absent / zero / this server /
// another server). Oracle (C14): a request naming a different server in either place is
// dropped; otherwise the reply carries this server's identifier.

import (
	"encoding/json"
	"net"
	"os"
	"testing"

	"github.com/insomniacslk/dhcp/dhcpv4"
)

func TestGovcReplay(t *testing.T) {
	var in map[string]interface{}
	raw, err := os.ReadFile(os.Getenv("GOVC_REPLAY_INPUT"))
	if err != nil {
		t.Skip("no input")
	}
	if err := json.Unmarshal(raw, &in); err != nil {
		t.Fatal(err)
	}
	is := func(k string) bool { s, _ := in[k].(string); return s == "1" }
	if _, ok := in["unit"].(string); ok && in["unit"].(string) != "serverid.Handler4" {
		t.Skip("no replay for this unit")
	}
	me := net.IPv4(10, 0, 0, 1)
	other := net.IPv4(10, 9, 9, 9)
	if _, err := setup4(me.String()); err != nil {
		t.Fatalf("GOVC-PRECONDITION: %v", err)
	}
	pick := func(isNil, zero, mine bool) net.IP {
		switch {
		case isNil:
			return nil
		case mine:
			return me.To4()
		case zero:
			return net.IPv4zero.To4()
		}
		return other.To4()
	}
	req, _ := dhcpv4.NewDiscovery([]byte{2, 0, 0, 0, 0, 1})
	req.UpdateOption(dhcpv4.OptMessageType(dhcpv4.MessageTypeRequest))
	if !is("op") {
		req.OpCode = dhcpv4.OpcodeBootReply
	}
	req.ServerIPAddr = pick(is("si_nil"), is("si_zero"), is("si_me"))
	var o54 net.IP
	if is("has54") {
		o54 = pick(is("o54_nil"), is("o54_zero"), is("o54_me"))
		if o54 == nil {
			o54 = net.IPv4zero.To4()
		}
		req.UpdateOption(dhcpv4.OptServerIdentifier(o54))
	}
	namesOther := func(ip net.IP) bool { return ip != nil && !ip.Equal(net.IPv4zero) && !ip.Equal(me) }
	wantDrop := req.OpCode == dhcpv4.OpcodeBootRequest && (namesOther(req.ServerIPAddr) || (is("has54") && namesOther(o54)))
	resp, _ := dhcpv4.NewReplyFromRequest(req)
	out, stop := Handler4(req, resp)
	t.Logf("request siaddr=%v option54=%v (this server is %v): response nil=%v stop=%v", req.ServerIPAddr, o54, me, out == nil, stop)
	if (out == nil) != wantDrop {
		t.Fatalf("GOVC-REPRODUCED: request names another server: %v, but dropped: %v", wantDrop, out == nil)
	}
}
