package server

// Scenario replay for the obligations of HandleMsg4 / HandleMsg6 (C11, C12, C13, C15): a table of
// datagrams is pushed through the real handlers over loopback sockets with recording handler
// chains. Oracle: the statements of C11-C13 and C15 as far as loopback can observe them (which
// requests are answered, reply kind and mirrored fields, handler order / stop / threading, where
// the reply datagram arrives). Needs the privilege to bind UDP ports 67/68 on 127.0.0.0/8.

import (
	"bytes"
	"net"
	"os"
	"path/filepath"
	"syscall"
	"testing"
	"time"

	"github.com/coredhcp/coredhcp/handler"
	"github.com/insomniacslk/dhcp/dhcpv4"
	"github.com/insomniacslk/dhcp/dhcpv6"
	"golang.org/x/net/ipv4"
	"golang.org/x/net/ipv6"
)

func govcListen(t *testing.T, ip net.IP, port int) *net.UDPConn {
	c, err := net.ListenUDP("udp4", &net.UDPAddr{IP: ip, Port: port})
	if err != nil {
		t.Fatalf("GOVC-PRECONDITION: cannot bind %v:%d: %v", ip, port, err)
	}
	return c
}

func govcRecv(c *net.UDPConn) []byte {
	c.SetReadDeadline(time.Now().Add(400 * time.Millisecond))
	b := make([]byte, 4096)
	n, _, err := c.ReadFromUDP(b)
	if err != nil {
		return nil
	}
	return b[:n]
}

func TestGovcReplay(t *testing.T) {
	// the scenarios bind fixed ports: one replay at a time on this machine
	if f, err := os.OpenFile(filepath.Join(os.TempDir(), "govc-server-replay.lock"), os.O_CREATE|os.O_RDWR, 0o600); err == nil {
		defer f.Close()
		syscall.Flock(int(f.Fd()), syscall.LOCK_EX)
		defer syscall.Flock(int(f.Fd()), syscall.LOCK_UN)
	}
	t.Run("v4", govcV4)
	t.Run("v6", govcV6)
}

func govcV4(t *testing.T) {
	lo := net.IPv4(127, 0, 0, 1)
	relayIP := net.IPv4(127, 0, 0, 2)
	client := govcListen(t, lo, dhcpv4.ClientPort) // ciaddr:68
	defer client.Close()
	relay := govcListen(t, relayIP, dhcpv4.ServerPort) // giaddr:67
	defer relay.Close()
	srv := govcListen(t, lo, 0)
	defer srv.Close()

	type call struct {
		idx      int
		req, in  *dhcpv4.DHCPv4
		inType   dhcpv4.MessageType
		inOpcode dhcpv4.OpcodeType
	}
	var calls []call
	mk := func(idx int, f func(req, resp *dhcpv4.DHCPv4) (*dhcpv4.DHCPv4, bool)) handler.Handler4 {
		return func(req, resp *dhcpv4.DHCPv4) (*dhcpv4.DHCPv4, bool) {
			c := call{idx: idx, req: req, in: resp}
			if resp != nil {
				c.inType, c.inOpcode = resp.MessageType(), resp.OpCode
			}
			calls = append(calls, c)
			return f(req, resp)
		}
	}
	pass := func(req, resp *dhcpv4.DHCPv4) (*dhcpv4.DHCPv4, bool) { return resp, false }
	run := func(hs []handler.Handler4, req *dhcpv4.DHCPv4) {
		calls = nil
		l := &listener4{PacketConn: ipv4.NewPacketConn(srv), handlers: hs}
		l.Interface.Index = 1
		raw := req.ToBytes()
		buf := make([]byte, len(raw), MaxDatagram)
		copy(buf, raw)
		l.HandleMsg4(buf, nil, &net.UDPAddr{IP: lo, Port: dhcpv4.ClientPort})
	}
	newReq := func(mt dhcpv4.MessageType, mods ...dhcpv4.Modifier) *dhcpv4.DHCPv4 {
		all := append([]dhcpv4.Modifier{dhcpv4.WithMessageType(mt), dhcpv4.WithHwAddr(net.HardwareAddr{2, 0, 0, 0, 0, 1})}, mods...)
		r, err := dhcpv4.New(all...)
		if err != nil {
			t.Fatal(err)
		}
		return r
	}

	// C11: only BOOTREQUEST + DISCOVER/REQUEST reach the handlers, with OFFER / ACK skeletons
	for _, tc := range []struct {
		op   dhcpv4.OpcodeType
		mt   dhcpv4.MessageType
		want dhcpv4.MessageType // 0: must not be handled
	}{
		{dhcpv4.OpcodeBootRequest, dhcpv4.MessageTypeDiscover, dhcpv4.MessageTypeOffer},
		{dhcpv4.OpcodeBootRequest, dhcpv4.MessageTypeRequest, dhcpv4.MessageTypeAck},
		{dhcpv4.OpcodeBootReply, dhcpv4.MessageTypeDiscover, 0},
		{dhcpv4.OpcodeType(3), dhcpv4.MessageTypeRequest, 0},
		{dhcpv4.OpcodeType(0), dhcpv4.MessageTypeDiscover, 0},
		{dhcpv4.OpcodeBootRequest, dhcpv4.MessageTypeInform, 0},
		{dhcpv4.OpcodeBootRequest, dhcpv4.MessageTypeRelease, 0},
		{dhcpv4.OpcodeBootRequest, dhcpv4.MessageTypeDecline, 0},
	} {
		req := newReq(tc.mt, dhcpv4.WithClientIP(lo))
		req.OpCode = tc.op
		run([]handler.Handler4{mk(0, pass)}, req)
		got := govcRecv(client)
		if tc.want == 0 {
			if len(calls) != 0 || got != nil {
				t.Fatalf("GOVC-REPRODUCED: a datagram with opcode %d and message type %v was handled (%d handler calls, reply sent: %v)", tc.op, tc.mt, len(calls), got != nil)
			}
			continue
		}
		if len(calls) != 1 || calls[0].inType != tc.want || calls[0].inOpcode != dhcpv4.OpcodeBootReply {
			t.Fatalf("GOVC-REPRODUCED: %v was not turned into a %v BOOTREPLY skeleton for the handlers: %+v", tc.mt, tc.want, calls)
		}
		if got == nil {
			t.Fatalf("GOVC-REPRODUCED: no reply to %v arrived at ciaddr:68", tc.mt)
		}
		rep, err := dhcpv4.FromBytes(got)
		if err != nil || rep.TransactionID != req.TransactionID || rep.OpCode != dhcpv4.OpcodeBootReply || rep.MessageType() != tc.want ||
			!bytes.Equal(rep.ClientHWAddr, req.ClientHWAddr) || rep.Flags != req.Flags {
			t.Fatalf("GOVC-REPRODUCED: the reply to %v does not mirror its request: %v", tc.mt, rep)
		}
	}

	// C13: order, original request, response threading, stop, nil means nothing sent
	second := &dhcpv4.DHCPv4{}
	hs := []handler.Handler4{
		mk(0, pass),
		mk(1, func(req, resp *dhcpv4.DHCPv4) (*dhcpv4.DHCPv4, bool) {
			n, _ := dhcpv4.NewReplyFromRequest(req)
			n.UpdateOption(dhcpv4.OptMessageType(dhcpv4.MessageTypeAck))
			*second = *n
			return second, false
		}),
		mk(2, func(req, resp *dhcpv4.DHCPv4) (*dhcpv4.DHCPv4, bool) { return resp, true }),
		mk(3, pass),
	}
	req := newReq(dhcpv4.MessageTypeRequest, dhcpv4.WithClientIP(lo))
	run(hs, req)
	if len(calls) != 3 || calls[0].idx != 0 || calls[1].idx != 1 || calls[2].idx != 2 {
		t.Fatalf("GOVC-REPRODUCED: handlers were not invoked in order up to the one that stops: %+v", calls)
	}
	for _, c := range calls {
		if !bytes.Equal(c.req.ToBytes(), req.ToBytes()) {
			t.Fatalf("GOVC-REPRODUCED: handler %d did not receive the original request", c.idx)
		}
	}
	if calls[2].in != second {
		t.Fatalf("GOVC-REPRODUCED: handler 2 did not receive the response returned by handler 1")
	}
	if govcRecv(client) == nil {
		t.Fatalf("GOVC-REPRODUCED: the response returned last was not sent")
	}
	run([]handler.Handler4{mk(0, func(req, resp *dhcpv4.DHCPv4) (*dhcpv4.DHCPv4, bool) { return nil, true }), mk(1, pass)}, req)
	if len(calls) != 1 || govcRecv(client) != nil {
		t.Fatalf("GOVC-REPRODUCED: a nil response with stop still ran %d handlers / sent a reply", len(calls))
	}

	// C15: addressing rows observable on loopback
	ack := func(mt dhcpv4.MessageType) []handler.Handler4 {
		return []handler.Handler4{func(req, resp *dhcpv4.DHCPv4) (*dhcpv4.DHCPv4, bool) {
			resp.UpdateOption(dhcpv4.OptMessageType(mt))
			return resp, true
		}}
	}
	run(ack(dhcpv4.MessageTypeAck), newReq(dhcpv4.MessageTypeRequest, dhcpv4.WithClientIP(lo), dhcpv4.WithGatewayIP(relayIP)))
	if govcRecv(relay) == nil || govcRecv(client) != nil {
		t.Fatalf("GOVC-REPRODUCED: a relayed request (giaddr set) was not answered to giaddr:67")
	}
	run(ack(dhcpv4.MessageTypeAck), newReq(dhcpv4.MessageTypeRequest, dhcpv4.WithClientIP(lo), dhcpv4.WithBroadcast(true)))
	if govcRecv(client) == nil {
		t.Fatalf("GOVC-REPRODUCED: giaddr zero, ciaddr set, broadcast flag set: the ACK was not unicast to ciaddr:68")
	}
	run(ack(dhcpv4.MessageTypeNak), newReq(dhcpv4.MessageTypeRequest, dhcpv4.WithClientIP(lo)))
	if govcRecv(client) != nil {
		t.Fatalf("GOVC-REPRODUCED: a NAK was unicast to ciaddr instead of being broadcast")
	}
}

func govcV6(t *testing.T) {
	srv, err := net.ListenUDP("udp6", &net.UDPAddr{IP: net.IPv6loopback, Port: 0})
	if err != nil {
		t.Skipf("no IPv6 loopback: %v", err)
	}
	defer srv.Close()
	cli, err := net.ListenUDP("udp6", &net.UDPAddr{IP: net.IPv6loopback, Port: 0})
	if err != nil {
		t.Skipf("no IPv6 loopback: %v", err)
	}
	defer cli.Close()
	duid := &dhcpv6.DUIDLL{HWType: 1, LinkLayerAddr: net.HardwareAddr{2, 0, 0, 0, 0, 1}}
	var seen []dhcpv6.DHCPv6
	exchange := func(req dhcpv6.DHCPv6) dhcpv6.DHCPv6 {
		seen = nil
		l := &listener6{PacketConn: ipv6.NewPacketConn(srv)}
		l.handlers = []handler.Handler6{func(r, resp dhcpv6.DHCPv6) (dhcpv6.DHCPv6, bool) { seen = append(seen, r); return resp, false }}
		raw := req.ToBytes()
		buf := make([]byte, len(raw), MaxDatagram)
		copy(buf, raw)
		l.HandleMsg6(buf, nil, cli.LocalAddr().(*net.UDPAddr))
		cli.SetReadDeadline(time.Now().Add(400 * time.Millisecond))
		in := make([]byte, MaxDatagram)
		n, from, err := cli.ReadFromUDP(in)
		if err != nil {
			return nil
		}
		if from.Port != srv.LocalAddr().(*net.UDPAddr).Port {
			t.Fatalf("GOVC-REPRODUCED: the reply did not come from the server socket")
		}
		out, err := dhcpv6.FromBytes(in[:n])
		if err != nil {
			t.Fatalf("GOVC-REPRODUCED: the reply does not parse: %v", err)
		}
		return out
	}
	for _, tc := range []struct {
		mt   dhcpv6.MessageType
		rc   bool
		want dhcpv6.MessageType // 0: no reply
	}{
		{dhcpv6.MessageTypeSolicit, false, dhcpv6.MessageTypeAdvertise},
		{dhcpv6.MessageTypeSolicit, true, dhcpv6.MessageTypeReply},
		{dhcpv6.MessageTypeRequest, false, dhcpv6.MessageTypeReply},
		{dhcpv6.MessageTypeRenew, false, dhcpv6.MessageTypeReply},
		{dhcpv6.MessageTypeInformationRequest, false, dhcpv6.MessageTypeReply},
		{dhcpv6.MessageTypeDecline, false, 0},
		{dhcpv6.MessageTypeReply, false, 0},
	} {
		for depth := 0; depth <= 2; depth++ {
			m, _ := dhcpv6.NewMessage()
			m.MessageType = tc.mt
			m.AddOption(dhcpv6.OptClientID(duid))
			if tc.rc {
				m.AddOption(&dhcpv6.OptionGeneric{OptionCode: dhcpv6.OptionRapidCommit})
			}
			var pkt dhcpv6.DHCPv6 = m
			for i := 0; i < depth; i++ {
				r, err := dhcpv6.EncapsulateRelay(pkt, dhcpv6.MessageTypeRelayForward, net.ParseIP("2001:db8::1"), net.ParseIP("fe80::2"))
				if err != nil {
					t.Fatal(err)
				}
				pkt = r
			}
			out := exchange(pkt)
			if tc.want == 0 {
				if out != nil {
					t.Fatalf("GOVC-REPRODUCED: a %v (relay depth %d) was answered", tc.mt, depth)
				}
				continue
			}
			if out == nil {
				t.Fatalf("GOVC-REPRODUCED: no reply to %v (rapid commit %v, relay depth %d) came back to the source port", tc.mt, tc.rc, depth)
			}
			if len(seen) != 1 || !bytes.Equal(seen[0].ToBytes(), pkt.ToBytes()) {
				t.Fatalf("GOVC-REPRODUCED: the handler did not receive the packet as received (relay depth %d)", depth)
			}
			if out.IsRelay() != (depth > 0) {
				t.Fatalf("GOVC-REPRODUCED: relay depth %d answered with relay=%v", depth, out.IsRelay())
			}
			inner, err := out.GetInnerMessage()
			if err != nil {
				t.Fatalf("GOVC-REPRODUCED: %v", err)
			}
			if inner.MessageType != tc.want || inner.TransactionID != m.TransactionID || inner.Options.ClientID() == nil ||
				(inner.GetOneOption(dhcpv6.OptionRapidCommit) != nil) != tc.rc {
				t.Fatalf("GOVC-REPRODUCED: %v (rapid commit %v, relay depth %d) answered with %v", tc.mt, tc.rc, depth, inner.Summary())
			}
		}
	}
}
