package bitmap

// Replay of govc counterexamples for (*IPv4Allocator).Allocate / Free on the real code.
// The allocator is rebuilt from the model (range, which of the first offsets are
// outstanding) through the public API; the oracle is an independent reference
// model (a set of outstanding offsets).

import (
	"encoding/binary"
	"encoding/json"
	"fmt"
	"net"
	"os"
	"testing"
)

type govcSlice struct {
	Nil   bool  `json:"nil"`
	Len   int   `json:"len"`
	Bytes []int `json:"bytes"`
}

func (s govcSlice) bytes() []byte {
	if s.Nil {
		return nil
	}
	b := make([]byte, s.Len)
	for i := range b {
		if i < len(s.Bytes) {
			b[i] = byte(s.Bytes[i])
		}
	}
	return b
}

type govcNet struct {
	IP   govcSlice `json:"IP"`
	Mask govcSlice `json:"Mask"`
}

func (n govcNet) ipnet() net.IPNet { return net.IPNet{IP: n.IP.bytes(), Mask: n.Mask.bytes()} }

func TestGovcReplay(t *testing.T) {
	var in struct {
		Unit string `json:"unit"`
		A    struct {
			Start  string `json:"start"`
			End    string `json:"end"`
			Bitmap struct {
				Bits []bool `json:"bits"`
			} `json:"bitmap"`
		} `json:"a"`
		Hint govcNet `json:"hint"`
		N    govcNet `json:"n"`
	}
	raw, err := os.ReadFile(os.Getenv("GOVC_REPLAY_INPUT"))
	if err != nil {
		t.Skip("no input")
	}
	if err := json.Unmarshal(raw, &in); err != nil {
		t.Fatal(err)
	}
	var s64, e64 uint64
	fmt.Sscan(in.A.Start, &s64)
	fmt.Sscan(in.A.End, &e64)
	start, end := uint32(s64), uint32(e64)
	if start > end {
		t.Fatalf("GOVC-PRECONDITION not met: start > end")
	}
	ip := func(v uint32) net.IP { b := make(net.IP, 4); binary.BigEndian.PutUint32(b, v); return b }
	a, err := NewIPv4Allocator(ip(start), ip(end))
	if err != nil {
		t.Fatalf("GOVC-PRECONDITION: allocator rejected: %v", err)
	}
	n := uint64(end) - uint64(start) + 1
	outstanding := map[uint32]bool{}
	for i, set := range in.A.Bitmap.Bits {
		if !set || uint64(i) >= n {
			continue
		}
		got, err := a.Allocate(net.IPNet{IP: ip(start + uint32(i))})
		if err != nil || !got.IP.Equal(ip(start+uint32(i))) {
			t.Fatalf("GOVC-PRECONDITION: cannot mark offset %d outstanding (%v, %v)", i, got, err)
		}
		outstanding[uint32(i)] = true
	}
	offset := func(x net.IP) (uint32, bool) {
		x4 := x.To4()
		if x4 == nil {
			return 0, false
		}
		v := binary.BigEndian.Uint32(x4)
		if v < start || v > end {
			return 0, false
		}
		return v - start, true
	}
	defer func() {
		if r := recover(); r != nil {
			t.Fatalf("GOVC-REPRODUCED: panic: %v", r)
		}
	}()
	switch in.Unit {
	case "bitmap.(*IPv4Allocator).Allocate":
		hint := in.Hint.ipnet()
		got, aerr := a.Allocate(hint)
		t.Logf("range %v-%v, outstanding %v: Allocate(%v) = %v, %v", ip(start), ip(end), outstanding, hint, got, aerr)
		full := uint64(len(outstanding)) == n
		if (aerr != nil) != full {
			t.Fatalf("GOVC-REPRODUCED: Allocate error=%v but range full=%v", aerr, full)
		}
		if aerr != nil {
			return
		}
		o, in := offset(got.IP)
		if !in || outstanding[o] {
			t.Fatalf("GOVC-REPRODUCED: returned address %v is not a free address of the range", got.IP)
		}
		if ones, bits := got.Mask.Size(); ones != 32 || bits != 32 {
			t.Fatalf("GOVC-REPRODUCED: returned mask %v is not /32", got.Mask)
		}
		if ho, ok := offset(hint.IP); ok && !outstanding[ho] && ho != o {
			t.Fatalf("GOVC-REPRODUCED: hint %v names a free address but %v was returned", hint.IP, got.IP)
		}
	case "bitmap.(*IPv4Allocator).Free":
		p := in.N.ipnet()
		o, inRange := offset(p.IP)
		want := inRange && outstanding[o]
		ferr := a.Free(p)
		t.Logf("range %v-%v, outstanding %v: Free(%v) = %v", ip(start), ip(end), outstanding, p.IP, ferr)
		if (ferr == nil) != want {
			t.Fatalf("GOVC-REPRODUCED: Free(%v) returned %v, but address in range=%v and outstanding=%v", p.IP, ferr, inRange, want)
		}
		for j := range outstanding {
			if want && j == o {
				continue
			}
			got, aerr := a.Allocate(net.IPNet{IP: ip(start + j)})
			if aerr == nil && got.IP.Equal(ip(start+j)) {
				t.Fatalf("GOVC-REPRODUCED: after Free(%v)=%v, outstanding address %v was handed out again", p.IP, ferr, got.IP)
			}
		}
	default:
		t.Fatalf("GOVC-PRECONDITION: unknown unit %q", in.Unit)
	}
}
