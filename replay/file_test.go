package file

// Scenario replay for the static-lease file plugin (C10: "the DHCPv4 and DHCPv6 instances each
// serve from their own file"). The refuted obligation says that setting up one protocol's
// instance does not preserve the other instance's table invariant: dual-stack configuration.

import (
	"net"
	"os"
	"path/filepath"
	"testing"

	"github.com/insomniacslk/dhcp/dhcpv4"
	"github.com/insomniacslk/dhcp/dhcpv6"
)

func TestGovcReplay(t *testing.T) {
	dir := t.TempDir()
	f4 := filepath.Join(dir, "leases4.txt")
	f6 := filepath.Join(dir, "leases6.txt")
	os.WriteFile(f4, []byte("02:00:00:00:00:01 10.0.0.1\n"), 0o644)
	os.WriteFile(f6, []byte("02:00:00:00:00:01 2001:db8::1\n"), 0o644)
	h6, err := setup6(f6)
	if err != nil {
		t.Fatalf("GOVC-PRECONDITION: %v", err)
	}
	h4, err := setup4(f4)
	if err != nil {
		t.Fatalf("GOVC-PRECONDITION: %v", err)
	}
	mac := net.HardwareAddr{2, 0, 0, 0, 0, 1}
	// DHCPv6 request with an IA_NA from the listed client
	req, _ := dhcpv6.NewMessage()
	req.MessageType = dhcpv6.MessageTypeRequest
	req.AddOption(dhcpv6.OptClientID(&dhcpv6.DUIDLL{HWType: 1, LinkLayerAddr: mac}))
	req.AddOption(&dhcpv6.OptIANA{IaId: [4]byte{1}})
	resp, _ := dhcpv6.NewReplyFromMessage(req)
	out, _ := h6(req, resp)
	var got net.IP
	if ia := out.(*dhcpv6.Message).Options.OneIANA(); ia != nil && ia.Options.OneAddress() != nil {
		got = ia.Options.OneAddress().IPv6Addr
	}
	t.Logf("dual-stack (setup6 then setup4): the DHCPv6 instance answers the IA_NA with %v (its file lists 2001:db8::1)", got)
	if !got.Equal(net.ParseIP("2001:db8::1")) {
		t.Fatalf("GOVC-REPRODUCED: the DHCPv6 instance serves %v from the DHCPv4 file instead of 2001:db8::1 from its own file", got)
	}
	r4, _ := dhcpv4.NewDiscovery(mac)
	p4, _ := dhcpv4.NewReplyFromRequest(r4)
	o4, _ := h4(r4, p4)
	if !o4.YourIPAddr.Equal(net.IPv4(10, 0, 0, 1)) {
		t.Fatalf("GOVC-REPRODUCED: the DHCPv4 instance serves %v instead of 10.0.0.1", o4.YourIPAddr)
	}
}
