package bitmap

// Replay of a govc counterexample for NewIPv4Allocator on the real code.
// Oracle from C05: a pool of N addresses satisfies N allocations; the first
// min(N,4) are tried.

import (
	"encoding/binary"
	"encoding/json"
	"net"
	"os"
	"testing"
)

type govcSlice struct {
	Nil   bool  `json:"nil"`
	Len   int   `json:"len"`
	Bytes []int `json:"bytes"`
}

func (s govcSlice) bytes() []byte {
	if s.Nil {
		return nil
	}
	b := make([]byte, s.Len)
	for i := range b {
		if i < len(s.Bytes) {
			b[i] = byte(s.Bytes[i])
		}
	}
	return b
}

func TestGovcReplay(t *testing.T) {
	var in struct {
		Start govcSlice `json:"start"`
		End   govcSlice `json:"end"`
	}
	raw, err := os.ReadFile(os.Getenv("GOVC_REPLAY_INPUT"))
	if err != nil {
		t.Skip("no input")
	}
	if err := json.Unmarshal(raw, &in); err != nil {
		t.Fatal(err)
	}
	start, end := net.IP(in.Start.bytes()), net.IP(in.End.bytes())
	valid := start.To4() != nil && end.To4() != nil && binary.BigEndian.Uint32(start.To4()) <= binary.BigEndian.Uint32(end.To4())
	a, gerr := NewIPv4Allocator(start, end)
	t.Logf("NewIPv4Allocator(%v, %v) -> err=%v", start, end, gerr)
	if valid != (gerr == nil) {
		t.Fatalf("GOVC-REPRODUCED: range validity is %v but err=%v", valid, gerr)
	}
	if gerr != nil {
		return
	}
	s, e := binary.BigEndian.Uint32(start.To4()), binary.BigEndian.Uint32(end.To4())
	n := uint64(e) - uint64(s) + 1
	k := uint64(4)
	if n < k {
		k = n
	}
	seen := map[string]bool{}
	for i := uint64(0); i < k; i++ {
		got, aerr := a.Allocate(net.IPNet{})
		if aerr != nil {
			t.Fatalf("GOVC-REPRODUCED: pool of %d addresses reports %q on allocation %d", n, aerr, i+1)
		}
		v := binary.BigEndian.Uint32(got.IP.To4())
		if v < s || v > e || seen[got.IP.String()] {
			t.Fatalf("GOVC-REPRODUCED: allocation %d returned %v (out of range or duplicate)", i+1, got.IP)
		}
		seen[got.IP.String()] = true
	}
}
