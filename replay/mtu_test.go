package mtu

// Scenario replay for the setup obligation of the mtu plugin (C19): argument values at and beyond
// the 16-bit boundary. Oracle: an accepted configuration yields option 26 carrying exactly the
// configured value; a value that cannot be honoured on the wire is rejected at start-up.

import (
	"strconv"
	"testing"

	"github.com/insomniacslk/dhcp/dhcpv4"
)

func TestGovcReplay(t *testing.T) {
	for _, arg := range []string{"0", "576", "1500", "65535", "65536", "70000", "-1", "4294968796"} {
		h, err := setup4(arg)
		if err != nil {
			t.Logf("mtu %s rejected: %v", arg, err)
			continue
		}
		want, _ := strconv.Atoi(arg)
		req, _ := dhcpv4.New(dhcpv4.WithMessageType(dhcpv4.MessageTypeDiscover))
		resp, _ := dhcpv4.NewReplyFromRequest(req)
		out, _ := h(req, resp)
		back, err := dhcpv4.FromBytes(out.ToBytes())
		if err != nil {
			t.Fatalf("GOVC-REPRODUCED: mtu %s accepted, reply does not parse: %v", arg, err)
		}
		raw := back.Options.Get(dhcpv4.OptionInterfaceMTU)
		if len(raw) != 2 || int(raw[0])<<8|int(raw[1]) != want {
			t.Fatalf("GOVC-REPRODUCED: mtu %s is accepted at start-up, but the reply carries option 26 = %v (%d): the configured value cannot be honoured on the wire and is silently truncated", arg, raw, int(raw[0])<<8|int(raw[1]))
		}
	}
}
