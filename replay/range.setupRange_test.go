package rangeplugin

// Scenario replay for the setupRange obligations (C02, restart): a lease database holding two rows,
// one whose expiry lies in the past and one in the future, is reopened by setupRange. Oracle: every
// stored binding is still marked in the allocator afterwards, i.e. new clients are never given an
// address that a stored binding already owns, and the stored clients get their addresses back.

import (
	"net"
	"path/filepath"
	"testing"
	"time"

	"github.com/insomniacslk/dhcp/dhcpv4"
)

func TestGovcReplay(t *testing.T) {
	db := filepath.Join(t.TempDir(), "leases.sqlite3")
	var p PluginState
	if err := p.registerBackingDB(db); err != nil {
		t.Fatalf("GOVC-PRECONDITION: %v", err)
	}
	stored := map[string]net.IP{}
	now := int(time.Now().Unix())
	for i, exp := range []int{now - 3600, now + 3600} {
		mac := net.HardwareAddr{2, 0, 0, 0, 0, byte(i + 1)}
		ip := net.IPv4(10, 0, 0, byte(10+i))
		if err := p.saveIPAddress(mac, &Record{IP: ip, expires: exp}); err != nil {
			t.Fatalf("GOVC-PRECONDITION: %v", err)
		}
		stored[mac.String()] = ip
	}
	p.leasedb.Close()
	h, err := setupRange(db, "10.0.0.10", "10.0.0.13", "1h")
	if err != nil {
		t.Fatalf("GOVC-REPRODUCED: restart on a database of in-range leases fails: %v", err)
	}
	ask := func(mac net.HardwareAddr) net.IP {
		req, _ := dhcpv4.NewDiscovery(mac)
		resp, _ := dhcpv4.NewReplyFromRequest(req)
		out, _ := h(req, resp)
		if out == nil {
			return nil
		}
		return out.YourIPAddr
	}
	// two new clients: the range has four addresses, two of them owned by stored bindings
	for i := 0; i < 2; i++ {
		mac := net.HardwareAddr{2, 0, 0, 0, 1, byte(i + 1)}
		got := ask(mac)
		for owner, ip := range stored {
			if got != nil && got.Equal(ip) {
				t.Fatalf("GOVC-REPRODUCED: after restart new client %s is given %v, which the stored binding of %s owns (start-up did not re-mark it)", mac, got, owner)
			}
		}
	}
	for owner, ip := range stored {
		mac, _ := net.ParseMAC(owner)
		if got := ask(mac); got == nil || !got.Equal(ip) {
			t.Fatalf("GOVC-REPRODUCED: after restart client %s gets %v, was first given %v", owner, got, ip)
		}
	}
}

// Lease-time scenario (C19/C02): a lease time that option 51 (unsigned 32-bit seconds) cannot carry
// must be rejected at start-up; an accepted one is what every reply carries.
func TestGovcReplayLeaseTime(t *testing.T) {
	for _, arg := range []string{"1h", "4294967295s", "4294967296s", "-1h"} {
		db := filepath.Join(t.TempDir(), "leases.sqlite3")
		h, err := setupRange(db, "10.0.0.10", "10.0.0.13", arg)
		if err != nil {
			t.Logf("lease time %s rejected: %v", arg, err)
			continue
		}
		d, _ := time.ParseDuration(arg)
		req, _ := dhcpv4.NewDiscovery(net.HardwareAddr{2, 0, 0, 0, 9, 1})
		resp, _ := dhcpv4.NewReplyFromRequest(req)
		out, _ := h(req, resp)
		if out == nil {
			t.Fatalf("GOVC-PRECONDITION: no reply")
		}
		back, err := dhcpv4.FromBytes(out.ToBytes())
		if err != nil {
			t.Fatalf("GOVC-REPRODUCED: lease time %s accepted, reply does not parse: %v", arg, err)
		}
		if got := back.IPAddressLeaseTime(0); got != d.Round(time.Second) {
			t.Fatalf("GOVC-REPRODUCED: lease time %s is accepted at start-up, but the reply promises %v: the configured duration cannot be honoured on the wire", arg, got)
		}
	}
}
