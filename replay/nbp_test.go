package nbp

// Scenario replay for nbp.nbpHandler6 (C17: the boot-file URL is added once). The refuted
// obligation is the loop invariant "option 59 is added at most once": its model is the
// second loop iteration that sees code 59 again, i.e. an ORO that lists the code twice.

import (
	"net"
	"testing"

	"github.com/insomniacslk/dhcp/dhcpv6"
)

func TestGovcReplay(t *testing.T) {
	if _, err := setup6("http://boot.example/file?params=x"); err != nil {
		t.Fatalf("GOVC-PRECONDITION: setup6 failed: %v", err)
	}
	req, err := dhcpv6.NewMessage()
	if err != nil {
		t.Fatal(err)
	}
	req.MessageType = dhcpv6.MessageTypeRequest
	req.AddOption(dhcpv6.OptClientID(&dhcpv6.DUIDLL{HWType: 1, LinkLayerAddr: net.HardwareAddr{2, 0, 0, 0, 0, 1}}))
	req.AddOption(dhcpv6.OptRequestedOption(dhcpv6.OptionBootfileURL, dhcpv6.OptionBootfileURL, dhcpv6.OptionBootfileParam, dhcpv6.OptionBootfileParam))
	resp, err := dhcpv6.NewReplyFromMessage(req)
	if err != nil {
		t.Fatal(err)
	}
	out, _ := nbpHandler6(req, resp)
	n59 := len(out.GetOption(dhcpv6.OptionBootfileURL))
	n60 := len(out.GetOption(dhcpv6.OptionBootfileParam))
	t.Logf("ORO lists 59 twice and 60 twice: reply carries %d boot-file URL option(s), %d boot-file parameter option(s)", n59, n60)
	if n59 != 1 || n60 != 1 {
		t.Fatalf("GOVC-REPRODUCED: boot-file options added %d and %d times instead of once", n59, n60)
	}
}
