package ipv6only

// Scenario replay for the setup obligation of the ipv6only plugin (C19): wait times at and beyond
// what option 108 (unsigned 32-bit seconds) can carry.

import (
	"encoding/binary"
	"testing"
	"time"

	"github.com/insomniacslk/dhcp/dhcpv4"
)

func TestGovcReplay(t *testing.T) {
	for _, arg := range []string{"30m", "4294967295s", "4294967296s", "-1h"} {
		h, err := setup4(arg)
		if err != nil {
			t.Logf("wait time %s rejected: %v", arg, err)
			continue
		}
		d, _ := time.ParseDuration(arg)
		req, _ := dhcpv4.New(dhcpv4.WithMessageType(dhcpv4.MessageTypeDiscover), dhcpv4.WithRequestedOptions(dhcpv4.OptionIPv6OnlyPreferred))
		resp, _ := dhcpv4.NewReplyFromRequest(req)
		out, _ := h(req, resp)
		back, err := dhcpv4.FromBytes(out.ToBytes())
		if err != nil {
			t.Fatalf("GOVC-REPRODUCED: wait time %s accepted, reply does not parse: %v", arg, err)
		}
		raw := back.Options.Get(dhcpv4.OptionIPv6OnlyPreferred)
		if len(raw) != 4 || int64(binary.BigEndian.Uint32(raw)) != int64(d/time.Second) {
			t.Fatalf("GOVC-REPRODUCED: wait time %s is accepted at start-up, but the reply carries option 108 = %v: the configured duration cannot be honoured on the wire", arg, raw)
		}
	}
}
