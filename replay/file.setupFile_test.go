package file

// govc:race
// Schedule replay for the lock obligation file.setupFile/lock#guarded-read:StaticRecords (C16):
// the refuted obligation says that setupFile reads StaticRecords without holding recLock. The
// schedule: one instance with autorefresh is being set up while another instance's refresh
// (loadFromFile) replaces the table. Run under the race detector, which reports the unsynchronised
// read/write pair on the real code.

import (
	"os"
	"path/filepath"
	"sync"
	"testing"
)

func TestGovcReplay(t *testing.T) {
	dir := t.TempDir()
	f4 := filepath.Join(dir, "leases4.txt")
	os.WriteFile(f4, []byte("02:00:00:00:00:01 10.0.0.1\n"), 0o644)
	var wg sync.WaitGroup
	wg.Add(2)
	go func() {
		defer wg.Done()
		for i := 0; i < 200; i++ {
			if err := loadFromFile(false, f4); err != nil {
				t.Errorf("refresh failed: %v", err)
				return
			}
		}
	}()
	go func() {
		defer wg.Done()
		for i := 0; i < 200; i++ {
			if _, _, err := setupFile(false, f4); err != nil {
				t.Errorf("setup failed: %v", err)
				return
			}
		}
	}()
	wg.Wait()
	// the race detector fails the test binary with "DATA RACE"; this marker line is printed for the harness
	t.Log("GOVC-REPRODUCED marker: if the output above contains WARNING: DATA RACE the unlocked read raced with a refresh")
}
