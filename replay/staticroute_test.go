package staticroute

// Scenario replay for the static-route plugin (C19): the refuted obligation says that setup4
// does not establish "every configured route is IPv4 with a 32-bit mask", which is what
// Route.Marshal needs when the handler inserts option 121. The scenarios are the argument
// vectors outside that invariant; a violation is an argument vector that setup4 accepts and
// that makes the handler panic on the first request.

import (
	"fmt"
	"testing"

	"github.com/insomniacslk/dhcp/dhcpv4"
)

func TestGovcReplay(t *testing.T) {
	vectors := [][]string{
		{"2001:db8::/32,2001:db8::1"},
		{"::ffff:10.0.0.0/104,10.0.0.1"},
		{"10.0.0.0/8,2001:db8::1"},
	}
	for _, args := range vectors {
		h, err := setup4(args...)
		if err != nil {
			t.Logf("setup4(%q) rejected: %v", args, err)
			continue
		}
		req, _ := dhcpv4.NewDiscovery([]byte{2, 0, 0, 0, 0, 1})
		resp, _ := dhcpv4.NewReplyFromRequest(req)
		func() {
			defer func() {
				if r := recover(); r != nil {
					t.Fatalf("GOVC-REPRODUCED: setup4(%q) succeeded, then the handler panicked on the first request: %v", args, r)
				}
			}()
			out, _ := h(req, resp)
			back, perr := dhcpv4.FromBytes(out.ToBytes())
			if perr != nil {
				t.Fatalf("GOVC-REPRODUCED: setup4(%q) succeeded, but the reply does not parse back: %v", args, perr)
			}
			want := fmt.Sprint(routes)
			if got := fmt.Sprint(back.ClasslessStaticRoute()); got != want {
				t.Fatalf("GOVC-REPRODUCED: setup4(%q) succeeded, but the reply carries routes %s instead of %s", args, got, want)
			}
		}()
	}
}
