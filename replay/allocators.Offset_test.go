package allocators

// Replay of a govc counterexample for Offset on the real code.

import (
	"encoding/json"
	"math/big"
	"net"
	"os"
	"testing"
)

type govcSlice struct {
	Nil   bool  `json:"nil"`
	Len   int   `json:"len"`
	Bytes []int `json:"bytes"`
}

func (s govcSlice) bytes() []byte {
	if s.Nil {
		return nil
	}
	b := make([]byte, s.Len)
	for i := range b {
		if i < len(s.Bytes) {
			b[i] = byte(s.Bytes[i])
		}
	}
	return b
}

func TestGovcReplay(t *testing.T) {
	var in struct {
		A govcSlice `json:"a"`
		B govcSlice `json:"b"`
		P string    `json:"prefixLength"`
	}
	raw, err := os.ReadFile(os.Getenv("GOVC_REPLAY_INPUT"))
	if err != nil {
		t.Skip("no input")
	}
	if err := json.Unmarshal(raw, &in); err != nil {
		t.Fatal(err)
	}
	a, b := net.IP(in.A.bytes()), net.IP(in.B.bytes())
	pb, _ := new(big.Int).SetString(in.P, 10)
	p := int(pb.Int64())
	if len(a) != 16 || len(b) != 16 || p < 0 || p > 128 {
		t.Fatalf("GOVC-PRECONDITION not met")
	}
	x, y := new(big.Int).SetBytes(a), new(big.Int).SetBytes(b)
	hi, lo := x, y
	if x.Cmp(y) < 0 {
		hi, lo = y, x
	}
	// the lower address must be aligned to /p
	if new(big.Int).Lsh(new(big.Int).Rsh(lo, uint(128-p)), uint(128-p)).Cmp(lo) != 0 {
		t.Fatalf("GOVC-PRECONDITION not met: base %s not aligned to /%d", lo.Text(16), p)
	}
	want := new(big.Int).Rsh(new(big.Int).Sub(hi, lo), uint(128-p))
	overflow := want.BitLen() > 64
	got, gerr := Offset(a, b, p)
	t.Logf("Offset(%s, %s, %d) = %d, %v; exact index %s (overflow=%v)", a, b, p, got, gerr, want, overflow)
	if overflow {
		if gerr == nil {
			t.Fatalf("GOVC-REPRODUCED: index needs more than 64 bits but no error was returned (got %d)", got)
		}
		return
	}
	if gerr != nil {
		t.Fatalf("GOVC-REPRODUCED: error %v although the index %s fits in 64 bits", gerr, want)
	}
	if new(big.Int).SetUint64(got).Cmp(want) != 0 {
		t.Fatalf("GOVC-REPRODUCED: got %d, want %s", got, want)
	}
}
