package allocators

// Replay of a govc counterexample for AddPrefixes on the real code.
// Oracle (independent of the contract text): math/big arithmetic from the
// statement of property C20.

import (
	"encoding/json"
	"math/big"
	"net"
	"os"
	"testing"
)

type govcSlice struct {
	Nil   bool  `json:"nil"`
	Len   int   `json:"len"`
	Bytes []int `json:"bytes"`
}

func (s govcSlice) bytes() []byte {
	if s.Nil {
		return nil
	}
	b := make([]byte, s.Len)
	for i := range b {
		if i < len(s.Bytes) {
			b[i] = byte(s.Bytes[i])
		}
	}
	return b
}

func TestGovcReplay(t *testing.T) {
	var in struct {
		IP   govcSlice `json:"ip"`
		N    string    `json:"n"`
		Unit string    `json:"unit"`
	}
	raw, err := os.ReadFile(os.Getenv("GOVC_REPLAY_INPUT"))
	if err != nil {
		t.Skip("no input")
	}
	if err := json.Unmarshal(raw, &in); err != nil {
		t.Fatal(err)
	}
	ip := net.IP(in.IP.bytes())
	n, _ := new(big.Int).SetString(in.N, 10)
	unit, _ := new(big.Int).SetString(in.Unit, 10)
	if len(ip) != 16 || unit.Cmp(big.NewInt(128)) > 0 {
		t.Fatalf("GOVC-PRECONDITION not met: len(ip)=%d unit=%s", len(ip), unit)
	}
	before := append(net.IP{}, ip...)
	got, gerr := AddPrefixes(ip, n.Uint64(), unit.Uint64())
	want := new(big.Int).SetBytes(before)
	want.Add(want, new(big.Int).Lsh(n, uint(128-unit.Int64())))
	overflow := want.Cmp(new(big.Int).Lsh(big.NewInt(1), 128)) >= 0
	t.Logf("AddPrefixes(%s, %s, %s) = %v, %v; exact result %s (overflow=%v)", before, n, unit, got, gerr, want.Text(16), overflow)
	if !before.Equal(ip) {
		t.Fatalf("GOVC-REPRODUCED: argument modified")
	}
	if overflow {
		if gerr == nil {
			t.Fatalf("GOVC-REPRODUCED: result lies beyond the address space but no error was returned (got %v): silently wrapped", got)
		}
		if gerr != ErrOverflow {
			t.Fatalf("GOVC-REPRODUCED: error is not ErrOverflow: %v", gerr)
		}
		return
	}
	if gerr != nil {
		t.Fatalf("GOVC-REPRODUCED: error %v although the exact result %s fits in 128 bits", gerr, want.Text(16))
	}
	if len(got) != 16 || new(big.Int).SetBytes(got).Cmp(want) != 0 {
		t.Fatalf("GOVC-REPRODUCED: got %v, want %s", got, want.Text(16))
	}
}
